"""C11 - slice and streamed input decode identically (structural part).

  IMPLS     closed set of implementations of the reading primitives (Read / ReadSlice / Take / IntoLeftAfterTake):
            a new implementation or override is reported until reviewed
  CONSUME   every BufRead::consume(k): k is the byte count decode_var returned for the buffer just filled, the `n` of
            the dominating `buffer.get(0..n)` success, or a pure pass-through of the caller's amount
  VARINT    slice: decode_var(slice) None => Err, Some => advance by exactly `read`; reader: in-buffer decode, on None
            the byte-wise reader is used on the same reader and its error is propagated
  SLICE     slice path: n > len => Err, split at n, rest kept; reader path: in-buffer visit of buffer[0..n] then
            consume(n); else read_exact into scratch[..n] (error propagated) and visit exactly that
  SKIP      every skip_bytes implementation either advances a slice by get(n..) (None => Err) or copies through
            take(n) and compares the copied count with n
  FIXEDBUF  read_const_size_buf reads exactly N bytes with read_exact (error propagated) or forwards
  TAKE      block-limited sub-readers: take errs if shorter; into_left_after_take errs unless nothing is left
  HEADER    single-object: both entry points consume exactly the 10 header bytes and decode exactly the remainder
  TAKE      ... and the two sub-readers refuse a block longer than the input at the same point (F37, known finding)
  TAKE      ... and the allocation cap goes into the block sub-reader and comes back out of it unchanged
  SHORTREAD a plain io::Read::read (which may return fewer bytes at a refill boundary) is never judged by its count
            outside Read implementations that forward it and the reviewed 1-byte end-of-stream probe
It does NOT decide outcome equality for every chunking.
"""
from ..lib import *
from ..core import short_loc, op_place, const_int
from .c03 import fn_by_label

EXPLANATION = ("Slice/stream equivalence, structural part: exact-consumption discipline of both input kinds (consume/advance "
               "argument provenance, bounds checks, take / left-after-take), a closed set of reading-primitive implementations, "
               "and header length agreement of the single-object entry points. Outcome equality under every chunking is not decided.")

READ_TRAITS = ('de::read::Read', 'de::read::ReadSlice', 'de::read::take::Take', 'de::read::take::IntoLeftAfterTake')
# reviewed implementations: (trait, self adt) -> methods implemented
IMPLS = {
    ('de::read::Read', 'de::read::SliceRead'): {'read_varint', 'skip_bytes'},
    ('de::read::Read', 'de::read::ReaderRead'): {'read_varint'},
    ('de::read::Read', 'de::read::take::SliceReadTake'): {'read_varint', 'read_const_size_buf'},
    ('de::read::ReadSlice', 'de::read::SliceRead'): {'read_slice'},
    ('de::read::ReadSlice', 'de::read::ReaderRead'): {'read_slice'},
    ('de::read::ReadSlice', 'de::read::take::SliceReadTake'): {'read_slice'},
    ('de::read::take::Take', 'de::read::SliceRead'): {'take'},
    ('de::read::take::Take', 'de::read::ReaderRead'): {'take'},
    ('de::read::take::IntoLeftAfterTake', 'de::read::take::SliceReadTake'): {'into_left_after_take'},
    ('de::read::take::IntoLeftAfterTake', 'de::read::ReaderRead'): {'into_left_after_take'},
}


def option_none_errs(b, call_t):
    """the Option produced (possibly through transparent calls) by call_t is matched and its None arm returns Err only"""
    for sbb in sorted(b.live_blocks()):
        if b.term(sbb)['k'] != 'switch':
            continue
        si = b.switch_info(sbb)
        if si.get('kind') == 'enum' and si.get('adt') == 'core::option::Option':
            so = origin(b, si['place'])
            if any(c is call_t for c in so.calls) or (op_place({'copy': si['place']}) and si['place']['l'] == call_t['dest']['l']):
                nb = si['variants'].get('None')
                if nb is None and 'None' in (si.get('otherwise_variants') or []):
                    nb = si['otherwise']
                if nb is not None and all_paths_err(b, nb):
                    return True, si['variants'].get('Some')
    return False, None


def pure_forward(b):
    """the method only delegates to the same trait method of a field of self, passing its own parameters through in
    order, and returns that call's result: `fn m(&mut self, a, b) -> R { self.inner.m(a, b) }`"""
    calls = [(bb, t) for bb, t in b.calls() if not b.is_cleanup(bb)]
    same = [(bb, t) for bb, t in calls if (t.get('callee') or '').rsplit('::', 1)[-1] == b.name and (t.get('callee') or '').rsplit('::', 1)[0] == (b.j.get('impl_trait') or '')]
    if len(same) != 1 or len(calls) != 1:
        return False
    t = same[0][1]
    if len(t['args']) != b.nargs:
        return False
    ro = origin(b, t['args'][0])
    if ro.params() != {1} or not ro.fields or ro.has_arith() or ro.call_names():
        return False
    for i, a in enumerate(t['args'][1:], start=2):
        ao = origin(b, a)
        if ao.params() != {i} or ao.has_arith() or ao.fields or ao.call_names():
            return False
    rt = return_origin(b)
    return any(c is t for c in rt.calls) and not rt.has_arith()


def run(ctx):
    f = ctx.f
    # ---- IMPLS
    seen = {}
    for b in f.body_list:
        if b.j['kind'] == 'closure':
            continue
        tr = b.j.get('impl_trait')
        if tr in READ_TRAITS:
            seen.setdefault((tr, b.j.get('self_adt')), set()).add(b.name)
    for key, meths in sorted(seen.items(), key=str):
        rev = IMPLS.get(key)
        extra = meths - (rev or set())
        # an additional override that only delegates to the wrapped reader adds no behaviour of its own
        extra = {m for m in extra if not all(pure_forward(b) for b in f.body_list
                                             if b.j['kind'] != 'closure' and b.j.get('impl_trait') == key[0] and b.j.get('self_adt') == key[1] and b.name == m)}
        ctx.ob('IMPLS', '%s for %s' % (key[0].rsplit('::', 1)[1], (key[1] or '?').rsplit('::', 1)[1]), rev is not None and not extra, None,
               'implements %s; reviewed: %s%s' % (sorted(meths), sorted(rev) if rev else 'NOT a reviewed implementation',
                                                  ('; unreviewed override(s): %s' % sorted(extra)) if extra and rev else ''))
    for key, meths in IMPLS.items():
        if key not in seen:
            ctx.ob('IMPLS', '%s for %s' % (key[0].rsplit('::', 1)[1], key[1].rsplit('::', 1)[1]), False, None, 'reviewed implementation not found')
    ctx.floor('IMPLS', 'implementations of the reading primitives', len(seen), 10)

    consume_rule(ctx)
    varint_rule(ctx)
    slice_rule(ctx)
    skip_rule(ctx)
    fixedbuf_rule(ctx)
    take_rule(ctx)
    header_rule(ctx)
    shortread_rule(ctx)
    take_agreement_rule(ctx)


def consume_rule(ctx):
    f = ctx.f
    n = 0
    for b in f.body_list:
        if not (b.id.startswith('de::') or b.id.startswith('<de::')):
            continue
        for bb, t in b.calls():
            if (t.get('callee') or '') != 'std::io::BufRead::consume':
                continue
            n += 1
            ctx.touched(b, 1)
            o = origin(b, t['args'][1])
            fl = fn_label(b)
            ok = False
            why = 'amount %s is neither the decoded varint length, the n of a successful get(0..n), nor a pass-through' % o.describe()
            if b.j.get('impl_trait') == 'std::io::BufRead' and b.name == 'consume':
                ok = o.params() == {2} and not o.has_arith() and len(o.atoms) == 1
                why = 'pass-through of the caller\'s amount: %s' % ok
            else:
                dv = [c for c in o.calls if cname(c).endswith('VarInt::decode_var') or (c.get('callee') or '').endswith('VarInt::decode_var')]
                if dv and not o.has_arith() and not o.params() - {1}:
                    # buffer given to decode_var comes from fill_buf of the same reader
                    bo = origin(b, dv[0]['args'][0])
                    ok = any((c.get('callee') or '').endswith('BufRead::fill_buf') for c in bo.calls) and len(dv) == 1
                    # tuple field .1 is the byte count
                    why = 'amount is the byte count returned by decode_var on the buffer just filled: %s' % ok
                elif o.params() == {2} and not o.has_arith() and len(o.atoms) == 1:
                    # n of the dominating buffer.get(0..n)
                    for names, adt, oo, d_, oth in option_guards(b, bb):
                        if 'Some' in names:
                            gets = [c for c in oo.calls if call_matches(c, ['slice::<impl [T]>::get'])]
                            for g in gets:
                                ro = origin(b, g['args'][1])
                                bo = origin(b, g['args'][0])
                                if ro.params() == {2} and ro.consts() == {0} and not ro.has_arith() and \
                                        any((c.get('callee') or '').endswith('BufRead::fill_buf') for c in bo.calls):
                                    ok = True
                                    why = 'amount n under the Some arm of buffer.get(0..n) on the buffer just filled'
            ctx.ob('CONSUME', '%s#%d' % (fl, sum(1 for bb2, t2 in b.calls() if bb2 < bb and (t2.get('callee') or '') == 'std::io::BufRead::consume')),
                   ok, short_loc(t.get('span')), why)
    ctx.floor('CONSUME', 'consume sites', n, 5)


def varint_rule(ctx):
    f = ctx.f
    b = fn_by_label(f, '<de::read::SliceRead as de::read::Read>::read_varint')
    if b is None:
        ctx.ob('VARINT', 'SliceRead', False, None, 'anchor not found')
    else:
        ctx.touched(b)
        dv = [(bb, t) for bb, t in b.calls() if (t.get('callee') or '').endswith('VarInt::decode_var')]
        ok = len(dv) == 1 and 'slice' in origin(b, dv[0][1]['args'][0]).fields
        none_err = some_bb = None
        if ok:
            none_err, some_bb = option_none_errs(b, dv[0][1])
        # slice = &slice[read..]
        adv = False
        for bb in b.live_blocks():
            for s in b.stmts(bb):
                if 'assign' in s and any(isinstance(e, dict) and e.get('f') == 'slice' for e in s['assign'].get('p', [])):
                    o = origin(b, s['rv'].get('op') or s['rv'].get('place') or s['assign'])
                    idx = [c for c in o.calls if call_matches(c, ['Index::index', 'index::Index<I>>::index', 'Index<I> for [T]>::index'])]
                    for c in idx:
                        ro = origin(b, c['args'][1])
                        if any(x is dv[0][1] for x in ro.calls) and not ro.has_arith() and any(a[0] == 'agg' and 'RangeFrom' in a[1] for a in ro.atoms):
                            adv = True
        ctx.ob('VARINT', 'SliceRead', bool(ok and none_err and adv), short_loc(b.span),
               'decode_var(self.slice): %s; None => Err: %s; slice advanced by exactly the returned count (slice[read..]): %s' % (ok, none_err, adv))
    b = fn_by_label(f, '<de::read::ReaderRead as de::read::Read>::read_varint')
    if b is None:
        ctx.ob('VARINT', 'ReaderRead', False, None, 'anchor not found')
    else:
        ctx.touched(b)
        dv = [(bb, t) for bb, t in b.calls() if (t.get('callee') or '').endswith('VarInt::decode_var')]
        fb = [(bb, t) for bb, t in b.calls() if (t.get('callee') or '').endswith('VarIntReader::read_varint')]
        ok = len(dv) == 1 and len(fb) == 1
        det = 'in-buffer decode sites: %d, byte-wise fallback sites: %d' % (len(dv), len(fb))
        if ok:
            # fallback is in the None arm, on self, and its result is what is returned
            in_none = any('None' in names and any(c is dv[0][1] for c in oo.calls) for names, adt, oo, d_, oth in option_guards(b, fb[0][0]))
            on_self = origin(b, fb[0][1]['args'][0]).params() == {1}
            ret = False
            for d in b.defs().get(0, []):
                if d[2] == 'call' and d[0] in b.live_blocks():
                    oo = origin(b, d[3]['args'][0]) if d[3]['args'] else None
                    if oo and any(c is fb[0][1] for c in oo.calls + [d[3]]):
                        ret = True
            ok = in_none and on_self and ret
            det = 'fallback in the None arm of the in-buffer decode: %s; on the same reader: %s; its result (incl. error) is returned: %s' % (in_none, on_self, ret)
        ctx.ob('VARINT', 'ReaderRead/fallback', ok, short_loc(b.span), det)


def slice_rule(ctx):
    f = ctx.f
    b = fn_by_label(f, '<de::read::SliceRead as de::read::ReadSlice>::read_slice')
    if b is None:
        ctx.ob('SLICE', 'SliceRead', False, None, 'anchor not found')
    else:
        ctx.touched(b)
        sp = [(bb, t) for bb, t in b.calls() if call_matches(t, SPLIT_AT)]
        ok = len(sp) == 1
        g_ok = rest = vis = False
        if ok:
            bb, t = sp[0]
            no = origin(b, t['args'][1])
            g_ok = split_is_bounded(b, bb, t, n_params={2}, need_slice_field=True) and 'slice' in origin(b, t['args'][0]).fields
            # self.slice = end (tuple .1 of split_at), visitor gets start (.0)
            for sbb in b.live_blocks():
                for s in b.stmts(sbb):
                    if 'assign' in s and any(isinstance(e, dict) and e.get('f') == 'slice' for e in s['assign'].get('p', [])) and s['rv']['k'] == 'use':
                        p = op_place(s['rv']['op'])
                        oo = origin(b, s['rv']['op'])
                        if any(c is t for c in oo.calls):
                            rest = True
            for vbb, vt in b.calls():
                if (vt.get('callee') or '').endswith('ReadVisitor::visit_borrowed') or (vt.get('callee') or '').endswith('ReadVisitor::visit'):
                    oo = origin(b, vt['args'][1])
                    vis = any(c is t for c in oo.calls) and no.params() == {2} and not no.has_arith()
        ctx.ob('SLICE', 'SliceRead', ok and g_ok and rest and vis, short_loc(b.span),
               'split_at(n) under n <= len (else Err): %s; rest kept as the new slice: %s; visitor receives the split-off part: %s' % (g_ok, rest, vis))
    b = fn_by_label(f, '<de::read::ReaderRead as de::read::ReadSlice>::read_slice')
    if b is None:
        ctx.ob('SLICE', 'ReaderRead', False, None, 'anchor not found')
        return
    ctx.touched(b)
    visits = [(bb, t) for bb, t in b.calls() if (t.get('callee') or '').endswith('ReadVisitor::visit') or (t.get('callee') or '').endswith('ReadVisitor::visit_borrowed')]
    ctx.ob('SLICE', 'ReaderRead/two-paths', len(visits) == 2 and all((t.get('callee') or '').endswith('::visit') for _, t in visits), short_loc(b.span),
           '%d visitor call(s) (in-buffer path and scratch path), none borrowed' % len(visits))
    fast = slow = None
    for bb, t in visits:
        o = origin(b, t['args'][1])
        if any((c.get('callee') or '').endswith('BufRead::fill_buf') for c in o.calls):
            fast = (bb, t, o)
        elif 'scratch' in o.fields:
            slow = (bb, t, o)
    okf = False
    if fast:
        bb, t, o = fast
        gets = [c for c in o.calls if call_matches(c, ['slice::<impl [T]>::get'])]
        if len(gets) == 1:
            ro = origin(b, gets[0]['args'][1])
            okf = ro.params() == {2} and ro.consts() == {0} and not ro.has_arith()
            # consume(n) follows on the success edge of the visit
            cons = [(cbb, ct) for cbb, ct in b.calls() if (ct.get('callee') or '') == 'std::io::BufRead::consume']
            te = try_edges(b, bb)
            okf = okf and len(cons) == 1 and te is not None and b.dominates(te[0], cons[0][0])
    ctx.ob('SLICE', 'ReaderRead/in-buffer', okf, short_loc(b.span), 'visit(buffer.get(0..n)) then consume on its success edge: %s' % okf)
    oks = False
    det = 'scratch path not found'
    if slow:
        bb, t, o = slow
        re = [(rbb, rt) for rbb, rt in b.calls() if (rt.get('callee') or '') == 'std::io::Read::read_exact']
        if len(re) == 1:
            rbb, rt = re[0]
            bo = origin(b, rt['args'][1])
            # both the read_exact target and the visited slice are scratch[..n]
            def upto_n(oo):
                idx = [c for c in oo.calls if call_matches(c, ['IndexMut::index_mut', 'Index::index', 'IndexMut<I>>::index_mut', 'Index<I>>::index'])]
                for c in idx:
                    ro = origin(b, c['args'][1])
                    if ro.params() == {2} and not ro.has_arith() and any(a[0] == 'agg' and a[1].endswith('RangeTo') for a in ro.atoms):
                        return True
                return False
            te = try_edges(b, rbb)
            oks = 'scratch' in bo.fields and upto_n(bo) and upto_n(o) and te is not None and b.dominates(te[0], bb) and te[1] is not None and all_paths_err(b, te[1]) \
                and 'reader' in origin(b, rt['args'][0]).fields
            # scratch[..n] is in bounds: the buffer is resized to n unconditionally, or exactly when n > scratch.len()
            # (a test against capacity() would leave len < n and make the slicing panic)
            rs = [(xbb, xt) for xbb, xt in b.calls() if call_matches(xt, ['Vec::<T, A>::resize']) and 'scratch' in origin(b, xt['args'][0]).fields]
            sized = len(rs) == 1 and origin(b, rs[0][1]['args'][1]).params() == {2} and not origin(b, rs[0][1]['args'][1]).has_arith() and b.dominates(rs[0][0], rbb) is False or False
            sized = False
            if len(rs) == 1:
                no = origin(b, rs[0][1]['args'][1])
                sized = no.params() == {2} and not no.has_arith()
                for g in cmp_guards(b, rs[0][0]):
                    sides = [(g['l'], g['lop']), (g['r'], g['rop'])]
                    if any(s_.params() == {2} for s_, _ in sides):
                        other = [s_ for s_, op_ in sides if s_.params() != {2} and 'scratch' in deep_fields(b, op_, 3)]
                        if other:
                            sized = sized and all(s_.calls and call_matches(s_.calls[0], ['Vec::<T, A>::len']) for s_ in other)
                # and every path to the read passes either the resize or the `n <= len` edge of that test
            oks = oks and sized
            det = 'read_exact(&mut scratch[..n]) on the reader, error propagated, then visit(scratch[..n]): %s; scratch resized to n unless n <= scratch.len(): %s' % (oks, sized)
        else:
            det = '%d read_exact call(s) on the scratch path (expected 1)' % len(re)
    ctx.ob('SLICE', 'ReaderRead/scratch', oks, short_loc(b.span), det)


def skip_rule(ctx):
    f = ctx.f
    impls = [b for b in f.body_list if b.name == 'skip_bytes' and b.j['kind'] != 'closure' and
             (b.j.get('impl_trait') == 'de::read::Read' or b.j.get('in_trait') == 'de::read::Read')]
    ctx.floor('SKIP', 'skip_bytes implementations', len(impls), 2)
    for b in impls:
        ctx.touched(b)
        fl = fn_label(b)
        shape = None
        # S1: slice advance
        sh = slice_advance_shape(b)
        if sh == 'get':
            shape = 'slice advance by get(n..), None => Err'
        elif sh == 'cmp':
            shape = 'slice advance by &slice[n..] under n <= len (n > len => Err)'
        # S2: copy through take(n) and compare
        cp = [(bb, t) for bb, t in b.calls() if (t.get('callee') or '') in ('std::io::copy', 'std::io::copy::copy')]
        tk = [(bb, t) for bb, t in b.calls() if (t.get('callee') or '') == 'std::io::Read::take']
        if shape is None and len(cp) == 1 and len(tk) == 1:
            to = origin(b, tk[0][1]['args'][1])
            eq = False
            for okb in ok_return_blocks(b):
                for g in cmp_guards(b, okb):
                    if g['op'] == 'Eq':
                        sides = [g['l'], g['r']]
                        if any(any(c is cp[0][1] for c in s_.calls) or any(a[0] == 'call' and a[1] in ('std::io::copy', 'std::io::copy::copy') for a in s_.atoms) for s_ in sides) and any(s_.params() == {2} and not s_.has_arith() for s_ in sides):
                            eq = True
            consumes = [1 for bb, t in b.calls() if (t.get('callee') or '') == 'std::io::BufRead::consume']
            if to.params() == {2} and not to.has_arith() and eq and not consumes:
                shape = 'copy through take(n) into a sink, Ok only if copied == n'
        if shape is None and pure_forward(b):
            shape = 'delegates to the wrapped reader\'s skip_bytes(n)'
        ctx.ob('SKIP', fl, shape is not None, short_loc(b.span),
               ('skip_bytes has the reviewed shape: %s' % shape) if shape else
               'skip_bytes implementation matches neither reviewed shape (slice advance by get(n..) / copy through take(n) with `copied == n`): the number of bytes skipped is not established to be n')


def fixedbuf_rule(ctx):
    f = ctx.f
    impls = [b for b in f.body_list if b.name == 'read_const_size_buf' and b.j['kind'] != 'closure' and
             (b.j.get('impl_trait') == 'de::read::Read' or b.j.get('in_trait') == 'de::read::Read')]
    ctx.floor('FIXEDBUF', 'read_const_size_buf implementations', len(impls), 2)
    for b in impls:
        ctx.touched(b)
        re = [(bb, t) for bb, t in b.calls() if (t.get('callee') or '') == 'std::io::Read::read_exact']
        fw = [(bb, t) for bb, t in b.calls() if (t.get('callee') or '').endswith('de::read::Read::read_const_size_buf')]
        shape = None
        if len(re) == 1 and not fw:
            bo = origin(b, re[0][1]['args'][1])
            te = try_edges(b, re[0][0])
            whole = any(fl.startswith('repeat:') for fl in bo.flags) and 'subslice' not in bo.flags and 'index' not in bo.flags
            if whole and te is not None and te[1] is not None and all_paths_err(b, te[1]) and origin(b, re[0][1]['args'][0]).params() == {1}:
                shape = 'read_exact into the whole [0; N] buffer, error propagated'
        elif len(fw) == 1 and not re:
            if 'inner_slice_read' in origin(b, fw[0][1]['args'][0]).fields and all(b.dominates(fw[0][0], r) for r in b.exits()):
                shape = 'forward to the inner reader'
        ctx.ob('FIXEDBUF', fn_label(b), shape is not None, short_loc(b.span), 'shape: %s' % shape)


def take_rule(ctx):
    f = ctx.f
    b = fn_by_label(f, '<de::read::SliceRead as de::read::take::Take>::take')
    if b is not None:
        ctx.touched(b)
        sp = [(bb, t) for bb, t in b.calls() if call_matches(t, SPLIT_AT)]
        ok = len(sp) == 1
        if ok:
            ok = split_is_bounded(b, sp[0][0], sp[0][1], n_params={2})
        ctx.ob('TAKE', 'SliceRead::take', ok, short_loc(b.span), 'block split off with split_at(block_size) under block_size <= len (else Err): %s' % ok)
    else:
        ctx.ob('TAKE', 'SliceRead::take', False, None, 'anchor not found')
    b = fn_by_label(f, '<de::read::take::SliceReadTake as de::read::take::IntoLeftAfterTake>::into_left_after_take')
    if b is not None:
        ctx.touched(b)
        ie = [(bb, t) for bb, t in b.calls() if call_matches(t, ['slice::<impl [T]>::is_empty'])]
        ok = False
        for okb in ok_return_blocks(b):
            for d, si, taken in dominating_switches(b, okb):
                so = origin(b, si['op']) if si.get('kind') != 'enum' else None
                if so is not None and any(c is ie[0][1] for c in so.calls) if ie else False:
                    if 'inner_slice_read' in origin(b, ie[0][1]['args'][0]).fields:
                        others = [s for s in b.succs(d) if not b.dominates(s, okb)]
                        ok = all(all_paths_err(b, s) for s in others)
        ret = False
        for okb in ok_return_blocks(b):
            for s in b.stmts(okb):
                if 'assign' in s and s['assign']['l'] == 0 and s['rv']['k'] == 'agg':
                    ret = 'left_after_take' in origin(b, s['rv']['ops'][0]).fields
        ctx.ob('TAKE', 'SliceReadTake::into_left_after_take', ok and ret, short_loc(b.span),
               'Ok only when the block slice is empty: %s; returns the part after the block: %s' % (ok, ret))
    else:
        ctx.ob('TAKE', 'SliceReadTake::into_left_after_take', False, None, 'anchor not found')
    b = fn_by_label(f, '<de::read::ReaderRead as de::read::take::Take>::take')
    if b is not None:
        ctx.touched(b)
        # (the call may sit in a closure handed to a small mapping helper: captured values resolve to the parent's)
        tk = [(x, bb, t) for x in [b] + f.closures_of(b) for bb, t in x.calls() if (t.get('callee') or '') == 'std::io::Read::take']
        ok = len(tk) == 1
        if ok:
            o = origin(tk[0][0], tk[0][2]['args'][1])
            conv = bool({'try_into', 'try_from'} & set(o.flags))
            checked = 'try' in o.flags
            if conv and not checked:
                # the explicit spelling: `match u64::try_from(n) { Ok(n) => n, Err(_) => return Err(..) }`
                x_ = tk[0][0]
                for cbb, ct in x_.calls():
                    if any(c is ct for c in o.calls) and cname(ct).endswith(('::try_from', '::try_into')):
                        te = try_edges(x_, cbb)
                        checked = te is not None and te[1] is not None and all_paths_err(x_, te[1])
            ok = o.params() == {2} and conv and checked and not o.has_arith()
        ctx.ob('TAKE', 'ReaderRead::take', ok, short_loc(b.span), 'reader limited with io::Take(block_size via checked conversion): %s' % ok)
    else:
        ctx.ob('TAKE', 'ReaderRead::take', False, None, 'anchor not found')
    b = fn_by_label(f, '<de::read::ReaderRead as de::read::take::IntoLeftAfterTake>::into_left_after_take')
    if b is not None:
        ctx.touched(b)
        lim = [(bb, t) for bb, t in b.calls() if cname(t).endswith('io::Take::<T>::limit')]
        ok = False
        for okb in ok_return_blocks(b):
            for g in cmp_guards(b, okb):
                if g['op'] in ('Le', 'Eq') and any(c in [x[1] for x in lim] for c in g['l'].calls) and g['r'].consts() == {0}:
                    ok = all(all_paths_err(b, s) for s in g['other'])
        ctx.ob('TAKE', 'ReaderRead::into_left_after_take', ok, short_loc(b.span), 'Ok only when limit() == 0 (nothing left in the block): %s' % ok)
    else:
        ctx.ob('TAKE', 'ReaderRead::into_left_after_take', False, None, 'anchor not found')
    # the allocation cap is the caller's configuration: it goes into the block reader and comes back out of it as it is (a
    # cap tightened per block - `max_alloc_size.min(block_size)` - and copied back shrinks for good to the smallest block
    # seen, and then refuses values that the slice path and an unblocked reader accept)
    RR = 'de::read::ReaderRead'
    adt = f.adts.get(RR) or {}
    names = [fd.get('name') for v in adt.get('variants', [])[:1] for fd in v.get('fields', [])]
    for lbl in ('<de::read::ReaderRead as de::read::take::Take>::take', '<de::read::ReaderRead as de::read::take::IntoLeftAfterTake>::into_left_after_take'):
        b = fn_by_label(f, lbl)
        if b is None or 'max_alloc_size' not in names:
            continue
        i = names.index('max_alloc_size')
        n_, bad = 0, []
        for x in [b] + f.closures_of(b):
            for bb in x.live_blocks():
                if x.is_cleanup(bb):
                    continue
                for s_ in x.stmts(bb):
                    if 'assign' in s_ and s_['rv']['k'] == 'agg' and (s_['rv'].get('adt') or '') == RR and len(s_['rv']['ops']) == len(names):
                        n_ += 1
                        o = origin(x, s_['rv']['ops'][i])
                        if not ('max_alloc_size' in o.fields and not o.has_arith() and not o.call_names() and not o.consts()):
                            bad.append(o.describe()[:120])
        ctx.ob('TAKE', '%s/cap-carried-unchanged' % lbl.split('>::')[-1], n_ >= 1 and not bad, short_loc(b.span),
               '%d ReaderRead value(s) built; max_alloc_size is the incoming one, untouched: %s' % (n_, bad or 'yes'))


def header_rule(ctx):
    f = ctx.f
    sb = fn_by_label(f, 'single_object_encoding::from_single_object_slice')
    rb = fn_by_label(f, 'single_object_encoding::from_single_object_reader')
    if sb is None or rb is None:
        ctx.ob('HEADER', 'anchors', False, None, 'single-object entry points not found')
        return
    ctx.touched(sb); ctx.touched(rb)
    gets = [(bb, t) for bb, t in sb.calls() if call_matches(t, ['slice::<impl [T]>::get'])]
    ok = len(gets) == 1
    n_hdr = None
    if ok:
        ro = origin(sb, gets[0][1]['args'][1])
        n_hdr = sorted(x for x in ro.consts() if isinstance(x, int))
        ok = n_hdr == [0, 10] and not ro.params()
    rest = None
    for bb, t in sb.calls():
        if cname(t).endswith('from_datum_slice'):
            o = origin(sb, t['args'][0])
            idx = [c for c in o.calls if call_matches(c, ['Index::index', 'Index<I> for [T]>::index', 'index::Index<I>>::index'])]
            for c in idx:
                ro = origin(sb, c['args'][1])
                if any(a[0] == 'agg' and a[1].endswith('RangeFrom') for a in ro.atoms):
                    rest = sorted(x for x in ro.consts() if isinstance(x, int))
            rest_from_input = o.params() == {1}
    form = 'header = slice.get(0..10) (%s), datum = slice[%s..]' % (n_hdr, rest)
    okh = ok and rest == [10]
    if not okh:
        # the same split written `if slice.len() < 10 { return Err } ; let (header, datum) = slice.split_at(10)`
        sp = [(bb, t) for bb, t in sb.calls() if call_matches(t, ['slice::<impl [T]>::split_at'])]
        if len(sp) == 1:
            bb, t = sp[0]
            at = origin(sb, t['args'][1])
            guarded = False
            for g in cmp_guards(sb, bb):
                if g['op'] in ('Ge', 'Gt') and 'len' in g['l'].flags and g['l'].params() == {1} and g['r'].consts() == ({10} if g['op'] == 'Ge' else {9}):
                    guarded = all(all_paths_err(sb, s_) for s_ in g['other'])
            datum_ok = False
            for b2, t2 in sb.calls():
                if cname(t2).endswith('from_datum_slice'):
                    o2 = origin(sb, t2['args'][0])
                    datum_ok = any(c is t for c in o2.calls) and not o2.has_arith()
            okh = at.consts() == {10} and not at.params() and origin(sb, t['args'][0]).params() == {1} and guarded and datum_ok
            form = 'header, datum = slice.split_at(10) under len >= 10 (else Err): %s; datum handed to from_datum_slice: %s' % (guarded, datum_ok)
    if not okh:
        # ... or `let Some((header, datum)) = slice.split_first_chunk::<10>() else { return Err(..) }`
        sp = [(bb, t) for bb, t in sb.calls() if call_matches(t, ['slice::<impl [T]>::split_first_chunk'])]
        if len(sp) == 1:
            bb, t = sp[0]
            n_ = (t.get('substs') or [None, None])[-1]
            none_errs = False
            for d in sb.live_blocks():
                if sb.is_cleanup(d) or sb.term(d).get('k') != 'switch':
                    continue
                si = sb.switch_info(d)
                if si.get('kind') == 'enum' and (si.get('adt') or '').endswith('option::Option') and any(c is t for c in origin(sb, si['place']).calls):
                    tgt = si['variants'].get('None', si.get('otherwise'))
                    none_errs = tgt is not None and all_paths_err(sb, tgt)
            datum_ok = False
            for b2, t2 in sb.calls():
                if cname(t2).endswith('from_datum_slice'):
                    datum_ok = index_path_from_call(sb, t2['args'][0], t) == [0, 1]
            okh = str(n_) == '10' and origin(sb, t['args'][0]).params() == {1} and none_errs and datum_ok
            form = 'header, datum = slice.split_first_chunk::<%s>() with None => Err: %s; datum (the rest) handed to from_datum_slice: %s' % (n_, none_errs, datum_ok)
    ctx.ob('HEADER', 'slice', okh, short_loc(sb.span), form)
    re = [(bb, t) for bb, t in rb.calls() if (t.get('callee') or '') == 'std::io::Read::read_exact']
    ok = len(re) == 1
    size = None
    if ok:
        bo = origin(rb, re[0][1]['args'][1])
        rep = [fl for fl in bo.flags if fl.startswith('repeat:')]
        size = rep[0] if rep else None
        te = try_edges(rb, re[0][0])
        ok = size is not None and size.split(':')[1].startswith('10') and te is not None and te[1] is not None and all_paths_err(rb, te[1]) \
            and origin(rb, re[0][1]['args'][0]).params() == {1}
    same_reader = False
    for bb, t in rb.calls():
        if cname(t).endswith('from_datum_reader'):
            same_reader = origin(rb, t['args'][0]).params() == {1}
    ctx.ob('HEADER', 'reader', ok and same_reader, short_loc(rb.span), 'header = read_exact(&mut [0u8; 10]) (%s), error propagated; datum decoded from the same reader: %s' % (size, same_reader))


SINGLE_READ_REVIEWED = {
    # function label -> reason a single io::Read::read whose count is looked at is right there
    'object_container_file_encoding::reader::decompression::DecompressionState::into_source_reader_and_config':
        'the 1-byte probe that drives a streaming decoder to its end: 0 is the only accepted count (C05 drive-to-end)',
}


def shortread_rule(ctx):
    """A plain `io::Read::read` may return fewer bytes than asked for whenever the source refills (a chunked reader, a
    small BufReader): input that is read with it and judged by the returned count makes the streamed path disagree with
    the slice path.  Outside `io::Read` implementations that merely forward the call (their own caller loops), every
    fixed-size read of the decode / header paths goes through read_exact or the crate's own primitives."""
    f = ctx.f
    n = 0
    bad = []
    for b in f.body_list:
        fl = fn_label(b)
        scope = fl.startswith(('de::', '<de::', 'single_object_encoding::', '<single_object_encoding::',
                               'object_container_file_encoding::reader::', '<object_container_file_encoding::reader::'))
        if not scope:
            continue
        for bb, t in b.calls():
            if b.is_cleanup(bb) or (t.get('callee') or '') != 'std::io::Read::read':
                continue
            n += 1
            owner = fl.split('::{closure#')[0]
            if owner.startswith('<') and owner.endswith((' as std::io::Read>::read', ' as std::io::Read>::read_vectored', ' as std::io::Read>::read_buf')):
                continue      # a Read implementation handing its own caller the count
            if owner in SINGLE_READ_REVIEWED:
                continue
            bad.append('%s at %s' % (short_fn(fl), short_loc(t.get('span'))))
    ctx.ob('SHORTREAD', 'no-single-read-judged-by-count', not bad and n >= 1, None,
           'plain io::Read::read calls outside forwarding Read implementations: %s (%d call(s) seen; a short count at a refill boundary is not the end of input)' % (bad or 'none', n))


def take_agreement_rule(ctx):
    """the two implementations of the block-limited sub-reader report a block that is longer than the input at the same
    point: both when the block is taken, or both when its bytes run out.  (A slice that checks `block_size <= len` up
    front yields nothing from a truncated block, a reader wrapped in io::Take yields every object that is still there
    and then an end-of-input error: same bytes, different outcomes.)"""
    f = ctx.f
    sb = fn_by_label(f, '<de::read::SliceRead as de::read::take::Take>::take')
    rb = fn_by_label(f, '<de::read::ReaderRead as de::read::take::Take>::take')
    if sb is None or rb is None:
        ctx.ob('TAKE', 'siblings-agree-on-short-blocks', False, None, 'take implementations not found')
        return

    def eager(b):
        # an Err return that depends on a comparison with the length of what is available
        for bb in sorted(b.live_blocks()):
            if b.term(bb)['k'] != 'switch' or b.is_cleanup(bb):
                continue
            si = b.switch_info(bb)
            if si.get('kind') == 'enum':
                continue
            cond = switch_condition(b, si)
            while cond[0] == 'not':
                cond = cond[1]
            if cond[0] == 'cmp':
                lo, ro = origin(b, cond[2]), origin(b, cond[3])
                if ('len' in lo.flags or 'len' in ro.flags) and any(all_paths_err(b, s_) for s_ in b.succs(bb)):
                    return True
        return False
    es, er = eager(sb), eager(rb)
    ctx.ob('TAKE', 'siblings-agree-on-short-blocks', es == er, short_loc(sb.span),
           'a block longer than the remaining input is refused when it is taken: slice %s, reader %s' % (es, er))
