"""C16 - container writer output independent of the sink's write schedule; sink errors surface (structural part).

  RETRY     the vectored-write loop: only exits are `bufs.is_empty()` (Ok) and the two error returns; Ok(n) advances
            by exactly n; Ok(0) => Err(WriteZero); Interrupted => retry without touching bufs; other errors returned
  SINK      in the container writer and the single-object writer the user's sink is only touched through
            Write::write_all (std: retries, errors on zero) and the vectored function above
  ERRORS    no io::Result / SerError result in the writer module is dropped (one reviewed exception: Drop)
Nothing structural is declined (std is trusted).
  MUSTCALL  (shared with C15) a failed flush inside into_inner comes out as Err, not as a panic in Drop   (found F29)
  RETRY     ... a block write that failed is remembered and never re-sent from its first byte          (found F30)
  RETRY     ... one way to the sink: no second, fallback way of writing the same slices on some error kind; the module
            inspects no error kind but the one it retries on
  SINK      ... one place hands blocks to the sink: the retry loop is called from flush_finished_block only
"""
from ..lib import *
from ..inventory import natural_loops
from ..core import short_loc, op_place, const_int
from .c03 import fn_by_label

EXPLANATION = ("Sink-schedule independence: retry-loop discipline of the vectored write (advance by exactly the accepted count, "
               "zero => error, interrupted => retry, other => return), closed inventory of sink writes (only complete-write "
               "primitives), no I/O result dropped. std's write_all / IoSlice::advance_slices contracts are trusted.")

P = 'object_container_file_encoding::writer::'


def complete_write_rules(ctx):
    """every block reaches the sink completely and in order whatever the sink accepts per call (shared: a file is laid
    out / round-trips / is valid at quiescent points only if [header, data, sync] is written in full: C05, C06, C15)"""
    f = ctx.f
    # the retry loop: the one function of the writer module that hands slices to Write::write_vectored (found by what it
    # calls, not by its name)
    cands = [x for x in f.body_list if x.j['kind'] != 'closure' and (fn_label(x).startswith(P) or fn_label(x).startswith('<' + P))
             and any((t.get('callee') or '') in ('std::io::Write::write_vectored', 'std::io::Write::write') for bb, t in x.calls())]
    b = cands[0] if len(cands) == 1 else None
    if b is None:
        ctx.ob('RETRY', 'anchor', False, None, 'expected exactly one function calling Write::write_vectored in the container writer, found %d' % len(cands))
    else:
        retry(ctx, b)
        # what the retry loop reports is what its caller reports: no second, "fallback" way of writing the same slices on
        # some error kind (a hard error swallowed, and slices the sink had already accepted sent again under an Ok), and
        # the only kind of error the module ever inspects is the one it retries on
        mod = fn_label(b).rsplit('::', 1)[0]
        units = [x for x in f.body_list if fn_label(x).split('::{closure')[0].rsplit('::', 1)[0] == mod]
        kinds = [(short_fn(fn_label(x)), short_loc(t.get('span'))) for x in units for bb, t in x.calls()
                 if not x.is_cleanup(bb) and (cname(t).endswith('io::error::Error::kind') or (t.get('callee') or '').endswith('io::error::Error::kind'))]
        other_writes = [(short_fn(fn_label(x)), (t.get('callee') or '').rsplit('::', 1)[-1]) for x in units for bb, t in x.calls()
                        if not x.is_cleanup(bb) and (t.get('callee') or '').startswith('std::io::Write::') and x is not b]
        in_loop_only = all(k[0] == short_fn(fn_label(b)) for k in kinds)
        ctx.ob('RETRY', 'one-way-to-the-sink', in_loop_only and len(kinds) <= 1 and not other_writes, short_loc(b.span),
               'error kinds inspected in %s: %s (only the retry loop\'s Interrupted test); other Write calls in the module: %s' % (mod.rsplit('::', 1)[-1], kinds or 'none', other_writes or 'none'))
    sink(ctx, b)


def run(ctx):
    complete_write_rules(ctx)
    errors(ctx)
    # a hard error of the sink comes out of the failing call as Err - also out of into_inner, whose leftovers are dropped
    # (shared with C15)
    from .c15 import mustcall
    mustcall(ctx)
    failed_flush_rule(ctx)


def failed_flush_rule(ctx):
    """A block flush that failed may have delivered part of the block.  The block stays pending and every public call
    starts by flushing the pending block: sending it again from its first byte would duplicate what the sink already
    took, and return Ok over a corrupt file.  The outcome of the block write is recorded in the writer (a flag set from
    the result / on its error edge) and the write is only attempted while that flag is clear (set => Err)."""
    f = ctx.f
    P_ = 'object_container_file_encoding::writer::'
    b = None
    for x in f.body_list:
        if fn_label(x) == P_ + 'Writer::flush_finished_block':
            b = x
    if b is None:
        ctx.ob('RETRY', 'failed-flush-is-not-resent', False, None, 'Writer::flush_finished_block not found')
        return
    ctx.touched(b)
    wc = [(bb, t) for bb, t in b.calls() if 'write_all_vectored' in cname(t) and not b.is_cleanup(bb)]
    ok, det = False, '%d block write(s) found' % len(wc)
    if len(wc) == 1:
        wbb, wt = wc[0]
        # flag written from the outcome: `self.F = res.is_err()` / `= true` on the error edge
        flags = set()
        for bb in sorted(b.live_blocks()):
            if b.is_cleanup(bb):
                continue
            for s_ in b.stmts(bb):
                if 'assign' in s_ and s_['assign'].get('p') and s_['rv']['k'] == 'use':
                    fl = [e.get('f') for e in s_['assign']['p'] if isinstance(e, dict) and 'f' in e]
                    o = origin(b, s_['rv']['op'])
                    from_result = any(strip_generics(cname(c)).endswith(('Result::is_err', 'Result::is_ok')) and any(c2 is wt for c2 in origin(b, c['args'][0]).calls) for c in o.calls)
                    te = try_edges(b, wbb)
                    on_err_edge = const_int(s_['rv']['op']) == 1 and te is not None and te[1] is not None and bb in b.reachable_from(te[1])
                    if fl and (from_result or on_err_edge):
                        flags.add(fl[-1])
        guarded = False
        for d, si, taken in dominating_switches(b, wbb):
            if si.get('kind') == 'enum':
                continue
            so = origin(b, si['op'])
            if so.fields & flags and taken == ('val', (0,)):
                others = [s_ for s_ in b.succs(d) if not b.dominates(s_, wbb)]
                guarded = all(all_paths_err(b, o_) for o_ in others)
        ok = bool(flags) and guarded
        det = 'outcome of the block write recorded in %s; the write is attempted only while it is clear (set => Err): %s' % (sorted(flags) or 'no field', guarded)
    ctx.ob('RETRY', 'failed-flush-is-not-resent', ok, short_loc(b.span), det)


def retry(ctx, b):
    ctx.touched(b, len(b.calls()))
    loops = natural_loops(b)
    # (`write(&bufs[0])` is what the default write_vectored does: same primitive)
    wv = [(bb, t) for bb, t in b.calls() if (t.get('callee') or '') in ('std::io::Write::write_vectored', 'std::io::Write::write')]
    ctx.ob('RETRY', 'one-write-per-iteration', len(wv) == 1 and any(wv[0][0] in blk for blk in loops.values()), short_loc(b.span),
           '%d write_vectored call(s), inside the loop' % len(wv))
    if len(wv) != 1:
        return
    wbb, wt = wv[0]
    # writes the whole remaining bufs on the user's sink
    ao = origin(b, wt['args'][1])
    first_only = (wt.get('callee') or '').endswith('::write')
    arg_ok = ao.params() == {2} and not ao.has_arith() and (('index' not in ao.flags) if not first_only else
                                                          all(origin(b, c['args'][1]).consts() == {0} and not origin(b, c['args'][1]).params() for c in ao.calls if call_matches(c, ['Index::index', 'Index<I>>::index', 'Index<I> for [T]>::index'])))
    ctx.ob('RETRY', 'writes-remaining-bufs', origin(b, wt['args'][0]).params() == {1} and arg_ok,
           short_loc(wt.get('span')), 'write_vectored(writer, bufs) / write(writer, &bufs[0]) on the parameters themselves: %s' % arg_ok)
    # Ok return only when bufs is empty
    oks = ok_return_blocks(b)
    ok = bool(oks)
    for okb in oks:
        good = False
        for d, si, taken in dominating_switches(b, okb):
            if si.get('kind') == 'enum':
                continue
            so = origin(b, si['op'])
            ie = [c for c in so.calls if call_matches(c, ['slice::<impl [T]>::is_empty'])]
            if ie and origin(b, ie[0]['args'][0]).params() == {2} and taken[0] == 'not':
                good = True
        ok = ok and good
    ctx.ob('RETRY', 'ok-only-when-empty', ok, short_loc(b.span), 'Ok(()) is returned only under bufs.is_empty(): %s' % ok)
    # result switch
    rs = None
    for sbb in sorted(b.live_blocks()):
        if b.term(sbb)['k'] == 'switch':
            si = b.switch_info(sbb)
            if si.get('kind') == 'enum' and si.get('adt') == 'core::result::Result' and si['place']['l'] == wt['dest']['l'] and 'Ok' in si['variants'] and 'Err' in si['variants']:
                if rs is None or b.dominates(sbb, rs['bb']):
                    rs = si
    if rs is None:
        ctx.ob('RETRY', 'result-matched', False, short_loc(b.span), 'the result of write_vectored is not matched')
        return
    okb, errb = rs['variants'].get('Ok'), rs['variants'].get('Err')
    # Ok arm: switch on n == 0
    zs = None
    if okb is not None and b.term(okb)['k'] == 'switch':
        zi = b.switch_info(okb)
        zo = origin(b, zi['op'])
        if zi['targets'].get(0) is not None and any(c is wt for c in zo.calls):
            zs = zi
    z_ok = False
    adv_ok = False
    if zs:
        zero_bb = zs['targets'][0]
        z_ok = all_paths_err(b, zero_bb)
        kinds = set()
        for x in b.reachable_from(zero_bb, avoid=b.exits()):
            for s in b.stmts(x):
                if 'assign' in s and s['rv']['k'] == 'agg' and s['rv'].get('adt') == 'core::io::error::ErrorKind':
                    kinds.add(s['rv']['variant'])
        z_ok = z_ok and kinds == {'WriteZero'}
        nz = zs['otherwise']
        adv = [(bb, t) for bb, t in b.calls() if cname(t).endswith('IoSlice::<\'a>::advance_slices') and bb in b.dominated_by(nz)]
        if len(adv) == 1:
            no = origin(b, adv[0][1]['args'][1])
            bo = origin(b, adv[0][1]['args'][0])
            adv_ok = any(c is wt for c in no.calls) and not no.has_arith() and not no.consts() and not [x for x in no.flags if x.startswith('cast:')] and bo.params() == {2}
            # then back to the loop header
            adv_ok = adv_ok and wbb in b.reachable_from(adv[0][0])
    ctx.ob('RETRY', 'zero-is-an-error', z_ok, short_loc(b.span), 'Ok(0) returns Err(WriteZero) on every path: %s' % z_ok)
    ctx.ob('RETRY', 'advance-by-accepted-count', adv_ok, short_loc(b.span),
           'Ok(n) calls advance_slices(&mut bufs, n) with exactly the accepted count (no arithmetic) and loops: %s' % adv_ok)
    # every advance_slices call: the initial one with constant 0, the loop one
    alladv = [(bb, t) for bb, t in b.calls() if cname(t).endswith('IoSlice::<\'a>::advance_slices')]
    init = [x for x in alladv if const_int(x[1]['args'][1]) == 0 and b.dominates(x[0], wbb)]
    ctx.ob('RETRY', 'no-other-advance', len(alladv) == 2 and len(init) == 1, short_loc(b.span), '%d advance_slices call(s): one initial advance(0) to drop empty buffers, one per accepted write' % len(alladv))
    # Err arm: kind() == Interrupted => retry, untouched bufs; else return that error
    i_ok = o_ok = False
    if errb is not None:
        for sbb in sorted(b.dominated_by(errb)):
            if b.term(sbb)['k'] != 'switch':
                continue
            si = b.switch_info(sbb)
            if si.get('kind') == 'enum':
                continue
            so = origin(b, si['op'])
            eqs = [c for c in so.calls if (c.get('callee') or '') in ('core::cmp::PartialEq::eq', 'core::cmp::PartialEq::ne')]
            if not eqs:
                continue
            e = eqs[0]
            a0, a1 = origin(b, e['args'][0]), origin(b, e['args'][1])
            kindcall = any(cname(c).endswith('io::error::Error::kind') for c in a0.calls + a1.calls)
            interrupted = any((a[0] == 'agg' and a[2] == 'Interrupted') for a in a0.atoms | a1.atoms) or \
                any(a[0] == 'const' and (str(a[1]) in ('bytes 23', '35')) for a in a0.atoms | a1.atoms)
            if not (kindcall and interrupted):
                continue
            ne = (e.get('callee') or '').endswith('::ne')
            t0 = [x['bb'] for x in b.term(sbb)['targets'] if x['v'] == 0][0]
            same, diff = (t0, si['otherwise']) if ne else (si['otherwise'], t0)
            # retry edge: reaches the write again without any advance_slices call
            advb = [x[0] for x in alladv]
            hdr = [h for h, blk in natural_loops(b).items() if wbb in blk]
            # straight back to the loop header: no advance, no return assigned on the way
            to_hdr = b.reachable_from(same, avoid=hdr)
            i_ok = bool(hdr) and any(h in b.succs(x) for x in to_hdr for h in hdr) and not (set(advb) & to_hdr) \
                and not ok_return_blocks(b, to_hdr) and not err_return_blocks(b, to_hdr)
            # other errors: returned as they are
            o_ok = all_paths_err(b, diff)
            for x in b.reachable_from(diff, avoid=b.exits()):
                for s in b.stmts(x):
                    if 'assign' in s and s['assign']['l'] == 0 and s['rv']['k'] == 'agg' and s['rv'].get('variant') == 'Err':
                        eo = origin(b, s['rv']['ops'][0])
                        o_ok = o_ok and any(c is wt for c in eo.calls)
    ctx.ob('RETRY', 'interrupted-retries', i_ok, short_loc(b.span), 'ErrorKind::Interrupted re-enters the write without advancing: %s' % i_ok)
    ctx.ob('RETRY', 'other-errors-returned', o_ok, short_loc(b.span), 'any other error from the sink is returned unchanged: %s' % o_ok)
    # the outer wrapper passes all slices, in order
    # (the wrapper is the function that calls the loop)
    ws = [x for x in ctx.f.body_list if x.j['kind'] != 'closure' and x is not b and any((t.get('resolved') or t.get('callee')) == b.id for bb, t in x.calls())]
    w = ws[0] if len(ws) == 1 else None
    okw = False
    if w is not None:
        cs = [(bb, t) for bb, t in w.calls() if (t.get('resolved') or t.get('callee')) == b.id]
        mp = [(bb, t) for bb, t in w.calls() if 'array' in cname(t) and cname(t).endswith('::map')]
        okw = len(cs) == 1 and len(mp) == 1 and origin(w, mp[0][1]['args'][0]).params() == {2} and origin(w, cs[0][1]['args'][0]).params() == {1}
    ctx.ob('RETRY', 'wrapper-passes-all-slices', okw, short_loc(w.span) if w else None, 'write_all_vectored maps every slice to an IoSlice (array::map keeps order) and hands them to the loop: %s' % okw)


def sink(ctx, loop_fn=None):
    f = ctx.f
    n = 0
    for b in f.body_list:
        fl = fn_label(b)
        if not (fl.startswith('object_container_file_encoding::writer::') or fl.startswith('<object_container_file_encoding::writer::') or fl.startswith('single_object_encoding::to_single')):
            continue
        for bb, t in b.calls():
            c = t.get('callee') or ''
            if not c.startswith('std::io::Write::'):
                continue
            meth = c.rsplit('::', 1)[1]
            recv_ty = t['arg_tys'][0] if t.get('arg_tys') else ''
            n += 1
            ctx.touched(b, 1)
            if meth == 'write_all':
                ok, why = True, 'complete-write primitive'
            elif meth in ('write_vectored', 'write') and loop_fn is not None and b is loop_fn:
                ok, why = True, 'inside the retry loop checked by RETRY'
            else:
                ok, why = False, 'partial-write or flush primitive used on a sink outside the retry loop'
            ctx.ob('SINK', '%s/%s#%d' % (fl, meth, sum(1 for bb2, t2 in b.calls() if bb2 < bb and (t2.get('callee') or '') == c)), ok, short_loc(t.get('span')),
                   'Write::%s on %s: %s' % (meth, recv_ty, why))
    ctx.floor('SINK', 'sink-write call sites', n, 6)
    # one place hands blocks to the sink: the flush of the pending block.  A second writer (a "fast path" that sends
    # bytes around the block buffer) bypasses the pending block - values already accepted are then written after later
    # ones - and the failed-flush / quiescent-point discipline judged on the one reviewed site
    if loop_fn is not None:
        # (the loop may sit behind wrappers of its own module: callers are taken outside that module)
        lmod = fn_label(loop_fn).rsplit('::', 1)[0]
        targets, callers, grew = {loop_fn.id}, [], True
        while grew:
            grew, callers = False, []
            for b in f.body_list:
                for bb, t in b.calls():
                    if (t.get('resolved') or t.get('callee')) in targets and not b.is_cleanup(bb) and b.id not in targets:
                        if fn_label(b).split('::{closure')[0].rsplit('::', 1)[0] == lmod:
                            targets.add(b.id)
                            grew = True
                        else:
                            callers.append((fn_label(b), short_loc(t.get('span'))))
        names = sorted({short_fn(c[0]) for c in callers})
        ctx.ob('SINK', 'one-block-writer', len(callers) == 1 and names == ['Writer::flush_finished_block'], short_loc(loop_fn.span),
               'call sites of the retry loop %s: %s (reviewed: one, in Writer::flush_finished_block, after the pending-block and failed-flush tests)' % (short_fn(fn_label(loop_fn)), names or 'none'))
    # the sink is never put behind a buffering adaptor: BufWriter / LineWriter flush in Drop and swallow the error, so a
    # failed or short write would be reported as success
    wrapped = []
    for b in f.body_list:
        fl = fn_label(b)
        if not (fl.startswith('object_container_file_encoding::writer::') or fl.startswith('<object_container_file_encoding::writer::') or fl.startswith('single_object_encoding::')):
            continue
        for bb, t in b.calls():
            c = cname(t)
            if ('BufWriter' in c or 'LineWriter' in c) and not b.is_cleanup(bb):
                wrapped.append('%s in %s' % (strip_generics(c).rsplit('::', 2)[-2] + '::' + strip_generics(c).rsplit('::', 1)[-1], short_fn(fl)))
    ctx.ob('SINK', 'no-buffering-adaptor-over-the-sink', not wrapped, None, 'buffering adaptors constructed / used in the writer: %s' % (sorted(set(wrapped)) or 'none'))


DISCARD_REVIEWED = {
    ('CompressionCodecState::new', 'unwrap_or'): (1, 'zstd level bound: i32 -> u8 conversion of a library constant, not an I/O result'),
    ('Writer::flush_finished_block', 'is_err'): (1, 'the outcome of the block write is recorded (flush_failed) by reference; the Result itself is propagated with `?` on the next line'),
    ('<Writer as Drop>::drop', 'unwrap_or'): (1, 'catch_unwind(..).unwrap_or(Ok(())) while already panicking: the Err is a panic payload, Drop cannot report it'),
}
RESULT_DROP_REVIEWED = {
    '<object_container_file_encoding::writer::Writer as core::ops::drop::Drop>::drop': 'Drop cannot return the error; documented, debug-asserts',
}


def errors(ctx):
    f = ctx.f
    n = 0
    for b in f.body_list:
        fl = fn_label(b)
        if not (fl.startswith('object_container_file_encoding::writer::') or fl.startswith('<object_container_file_encoding::writer::')):
            continue
        # uses of each local
        used = set()

        def mark(op):
            p = op_place(op)
            if p is not None:
                used.add(p['l'])
                for e in p.get('p', []):
                    if isinstance(e, dict) and 'idx' in e:
                        used.add(e['idx'])
        for bb in b.live_blocks():
            for s in b.stmts(bb):
                if 'assign' in s:
                    rv = s['rv']
                    for k in ('op', 'l', 'r', 'a'):
                        if k in rv and isinstance(rv[k], dict):
                            mark(rv[k])
                    if 'place' in rv:
                        used.add(rv['place']['l'])
                    for o in rv.get('ops', []):
                        mark(o)
            t = b.term(bb)
            if t['k'] in ('call', 'tailcall'):
                for a in t['args']:
                    mark(a)
            elif t['k'] == 'switch':
                mark(t['op'])
        for bb, t in b.calls():
            if b.is_cleanup(bb):
                continue
            dl = t['dest']['l'] if 'dest' in t else None
            if dl is None or dl == 0:
                continue
            ty = b.local_ty(dl)
            if not ty.startswith('core::result::Result<'):
                continue
            if (t.get('span') or {}).get('exp'):
                continue
            n += 1
            # matched through discriminant reads also count as a use (rv place)
            ok = dl in used
            if ok:
                # `res.ok();` / `res.err();` / `drop(res)` with the outcome unused discard the error just as well
                consumers = [t2 for bb2, t2 in b.calls() if any(op_place(a) and op_place(a)['l'] == dl and not op_place(a).get('p') for a in t2['args'])]
                other_use = False
                for bb2 in b.live_blocks():
                    for s2 in b.stmts(bb2):
                        if 'assign' in s2:
                            rv2 = s2['rv']
                            pls = [op_place(rv2[k]) for k in ('op', 'l', 'r', 'a') if isinstance(rv2.get(k), dict)] + ([rv2['place']] if 'place' in rv2 else []) + [op_place(o) for o in rv2.get('ops', [])]
                            if any(p_ and p_['l'] == dl for p_ in pls):
                                other_use = True
                discards = [t2 for t2 in consumers if strip_generics(cname(t2)).endswith(('Result::ok', 'Result::err', 'mem::drop'))
                            and ('dest' not in t2 or t2['dest']['l'] not in used or strip_generics(cname(t2)).endswith('mem::drop'))]
                if consumers and len(discards) == len(consumers) and not other_use:
                    ok = False
            if not ok and fl in RESULT_DROP_REVIEWED:
                ok = True
            ctx.ob('ERRORS', '%s/%s#%d' % (fl, strip_generics(cname(t)).rsplit('::', 1)[-1], sum(1 for bb2, t2 in b.calls() if bb2 < bb and cname(t2) == cname(t))),
                   ok, short_loc(t.get('span')), 'Result of %s is %s' % (strip_generics(cname(t))[-80:], 'consumed (branched on, converted or returned)' if ok else 'DROPPED'),
                   nontrivial=False)
    ctx.floor('ERRORS', 'fallible calls in the writer module', n, 30)
    # ... and no error is turned into a value: Result adaptors that can swallow an Err are a closed, reviewed set
    from .c17 import ERROR_DISCARDING
    found = []
    m = 0
    used = {}
    for b in f.body_list:
        fl = fn_label(b)
        if not (fl.startswith('object_container_file_encoding::writer::') or fl.startswith('<object_container_file_encoding::writer::')):
            continue
        for bb, t in b.calls():
            if b.is_cleanup(bb):
                continue
            c = strip_generics(cname(t))
            if 'result::Result::' in c:
                m += 1
                if c.endswith(ERROR_DISCARDING):
                    key = (short_fn(fl), c.rsplit('::', 1)[1])
                    if key in DISCARD_REVIEWED and used.get(key, 0) < DISCARD_REVIEWED[key][0]:
                        used[key] = used.get(key, 0) + 1
                    else:
                        found.append('%s in %s' % key[::-1])
    ctx.ob('ERRORS', 'no-unreviewed-error-discarding-adaptor', not found, None,
           'Result adaptors that can swallow an error in the container writer module, beyond the reviewed ones (%s): %s' % (
               '; '.join('%s in %s: %s' % (k[1], k[0], v[1]) for k, v in sorted(DISCARD_REVIEWED.items())), found or 'none'))
