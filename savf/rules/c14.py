"""C14 - reusing a serializer configuration never changes output; failures leave it clean.

Argument (DESIGN 4.14): the bytes produced depend on the value, the schema and the configuration's state.  The
configuration is the schema reference (immutable), one user-set flag and pools of buffers.  If (I) every buffer that
enters a pool is empty and (W) nothing else in the configuration is written during serialisation, then a popped buffer is
observationally a fresh Vec::new() (capacity aside) and the emptiness assertions cannot fire - for every history,
including failed ones.  (I) and (W) are structural:

  POOLCLEAN  at every push / extend site into a pool the inserted value is cleared on every path reaching the site
             (clear() dominating, the product of mem::replace(.., Vec::new()) after drain(..), or a mapping closure
             that clears before returning) - this includes both Drop impls, hence the failure paths
  POOLSITES  closed inventory of pool accesses (pop / push / extend only, in the reviewed functions)
  CONFIGW    field-write inventory of SerializerConfig / Buffers: only at the pool sites, in constructors and in the
             public flag setter; a `&mut` borrow of an option field counts as a write (mem::replace save/restore around a
             fallible call), and the library never calls the user's flag setter itself
  SHARED     nested / out-of-order serialisation borrows the same configuration (no second pool)
  POOLSITES  ... an assertion on a popped buffer fails on the non-empty outcome only (every pooled buffer is empty)
"""
from ..lib import *
from ..core import short_loc, op_place, const_int
from .c03 import fn_by_label

EXPLANATION = ("Configuration reuse: the invariant 'pools only ever receive cleared buffers' is established at every push site "
               "(including both Drop impls, hence failure paths), together with a closed inventory of pool accesses and of "
               "writes to the configuration; with these, reuse is observationally equal to a fresh configuration.")

BUF = 'ser::Buffers'
CFG = 'ser::SerializerConfig'


def pools(f):
    a = f.adts.get(BUF)
    if not a:
        raise Inconclusive('ser::Buffers not found')
    return {x['name'] for x in a['variants'][0]['fields'] if x['ty'].startswith('alloc::vec::Vec<')}


def pool_calls(f, P_):
    out = []
    for b in f.body_list:
        for bb, t in b.calls():
            if not t['args'] or b.is_cleanup(bb):
                continue
            if transparent(t):
                continue
            o = origin(b, t['args'][0])
            if o.fields & P_:
                out.append((b, bb, t, sorted(o.fields & P_)[0]))
    return out


def cleared_before(b, bb, op, f, depth=0):
    """is the value of operand `op` an empty vector on every path reaching block bb?"""
    p = op_place(op)
    o = origin(b, op)
    # (a) clear()/truncate(0) on the same local dominating the site, with no push/extend on it in between
    if p is not None:
        for cbb, ct in b.calls():
            if call_matches(ct, ['Vec::<T, A>::clear']) and b.dominates(cbb, bb) and cbb != bb:
                co = origin(b, ct['args'][0])
                base = op_place(ct['args'][0])
                # same vector: the receiver of clear() is a borrow of the local that is pushed
                if co.atoms == o.atoms and co.fields == o.fields:
                    # nothing refills it between the clear and the push
                    refill = False
                    for rbb, rt in b.calls():
                        if rbb in b.reachable_from(cbb) and bb in b.reachable_from(rbb) and rbb not in (cbb, bb) and b.dominates(cbb, rbb):
                            if call_matches(rt, ['Vec::<T, A>::push', 'Vec::<T, A>::extend_from_slice', 'io::Write::write_all', 'Extend<T>>::extend']) and rt['args'] and \
                                    origin(b, rt['args'][0]).atoms == o.atoms:
                                refill = True
                    if not refill:
                        return True, 'clear() dominates the site'
    # (b) mem::replace(&mut x, Vec::new()) where x was drained
    for c in o.calls:
        is_take = strip_generics(cname(c)).endswith('mem::take')
        if cname(c).endswith('mem::replace') or is_take:
            src = origin(b, c['args'][0])
            if is_take:
                fresh = True          # mem::take(&mut x) == mem::replace(&mut x, Default::default()): an empty Vec
            else:
                newv = origin(b, c['args'][1])
                fresh = any(cname(x).endswith('Vec::<T>::new') for x in newv.calls) or any(a[0] == 'call' and a[1].endswith('Vec::<T>::new') for a in newv.atoms)
            drained = False
            for dbb, dt in b.calls():
                if call_matches(dt, ['Vec::<T, A>::drain', 'Vec::<T, A>::clear']) and b.dominates(dbb, bb):
                    do = origin(b, dt['args'][0])
                    if do.fields == src.fields and do.params() == src.params():
                        if call_matches(dt, ['Vec::<T, A>::clear']):
                            drained = True
                        else:
                            # only a full-range drain empties the vector
                            ro = origin(b, dt['args'][1])
                            drained = any(a[0] == 'agg' and a[1].endswith('RangeFull') for a in ro.atoms) and len(ro.atoms) == 1
            if fresh and drained:
                return True, 'mem::replace(&mut x, Vec::new()) / mem::take(&mut x) of a vector drained just before'
    return False, 'no dominating clear of the inserted value'


def run(ctx):
    P_ = pool_rule(ctx)
    configw(ctx, P_)
    shared(ctx)


def b_calls_all(b):
    return [t for bb, t in b.calls()]


def pool_rule(ctx):
    f = ctx.f
    P_ = pools(f)
    ctx.floor('POOLSITES', 'pool fields', len(P_), 2)
    sites = pool_calls(f, P_)
    ctx.floor('POOLSITES', 'pool access sites', len(sites), 8)
    npush = npop = 0
    for b, bb, t, pool in sites:
        ctx.touched(b, 1)
        c = strip_generics(cname(t))
        meth = c.rsplit('::', 1)[1]
        fl = fn_label(b)
        key = '%s/%s/%s' % (short_fn(fl), pool, meth)
        if meth == 'pop':
            npop += 1
            # the popped buffer is asserted empty (holds by invariant I) - presence of the assertion is not required,
            # what matters is that nothing else reads the pool
            ctx.ob('POOLSITES', key, True, short_loc(t.get('span')), 'pop from pool %s' % pool, nontrivial=False)
            # ... where the assertion is written, it is the *non-empty* buffer that fails it: every buffer of the pool is
            # empty (invariant I), so a test the other way round panics on the first reuse of a configuration
            from ..inventory import panic_sites
            wrong = []
            # (the test may sit in a closure mapped over the popped Option: `.pop().map(|v| { assert!(v.is_empty()); v })`)
            cands = [(b, eb, et) for eb, et in b.calls() if strip_generics(cname(et)).endswith('Vec::is_empty') and any(c_ is t for c_ in origin(b, et['args'][0]).calls)]
            for mb, mt in b.calls():
                if strip_generics(cname(mt)).endswith(('Option::map', 'Option::inspect')) and len(mt['args']) > 1 and any(c_ is t for c_ in origin(b, mt['args'][0]).calls):
                    for a_ in origin(b, mt['args'][1]).atoms:
                        cb_ = f.bodies.get(a_[1]) if a_[0] == 'closure' else None
                        if cb_ is not None:
                            cands += [(cb_, eb, et) for eb, et in cb_.calls() if strip_generics(cname(et)).endswith('Vec::is_empty') and origin(cb_, et['args'][0]).params() == {2}]
            for x_, eb, et in cands:
                pan = {pb for _, pb, _, _ in panic_sites(x_)}
                sw_ = et.get('target')
                while sw_ is not None and x_.term(sw_)['k'] == 'goto':
                    sw_ = x_.term(sw_)['target']
                if sw_ is None or x_.term(sw_)['k'] != 'switch':
                    continue
                # which edge stands for "the buffer is empty": through any negation of the flag
                cond_ = switch_condition(x_, x_.switch_info(sw_))
                neg_ = False
                while cond_[0] == 'not':
                    neg_, cond_ = not neg_, cond_[1]
                zero_ = [x['bb'] for x in x_.term(sw_)['targets'] if x['v'] == 0]
                empty_edge = (zero_[0] if zero_ else None) if neg_ else x_.term(sw_)['otherwise']
                other_edge = x_.term(sw_)['otherwise'] if neg_ else (zero_[0] if zero_ else None)
                if empty_edge is not None and empty_edge != other_edge and any(pb in x_.dominated_by(empty_edge) for pb in pan):
                    wrong.append(short_loc(et.get('span')))
            ctx.ob('POOLSITES', key + '/empty-buffer-passes-the-assertion', not wrong, short_loc(t.get('span')),
                   'assertions on the popped buffer that fail when it IS empty: %s' % (wrong or 'none'))
        elif meth == 'push':
            npush += 1
            ok, why = cleared_before(b, bb, t['args'][1], f)
            ctx.ob('POOLCLEAN', key, ok, short_loc(t.get('span')), 'buffer pushed into %s in %s: %s' % (pool, short_fn(fl), why))
        elif meth == 'extend':
            npush += 1
            # extend(iter.map(|mut v| { v.clear(); v })): the mapping closure clears its argument before returning it
            names = deep_call_names(b, t['args'][1])
            o = origin(b, t['args'][1])
            ok = False
            why = 'no clearing closure in the iterator chain'
            todo = [t['args'][1]]
            closures = set()
            seen_calls = set()
            while todo:
                x = todo.pop()
                oo = origin(b, x)
                for a in oo.atoms:
                    if a[0] == 'closure':
                        closures.add(a[1])
                for c_ in oo.calls:
                    if id(c_) not in seen_calls:
                        seen_calls.add(id(c_))
                        for arg in c_.get('args', []):
                            todo.append(arg)
            # a named function handed to map(..) is as good as a closure: `.map(cleared)`
            fnitems = set()
            for c_ in list(o.calls) + [c for c in b_calls_all(b) if id(c) in seen_calls]:
                if cname(c_).endswith('Iterator::map') and len(c_.get('args', [])) > 1 and 'const' in c_['args'][1] and c_['args'][1]['const'].get('fn'):
                    fnitems.add(c_['args'][1]['const']['fn'])
            for cid in sorted(closures) + sorted(fnitems):
                cb = f.bodies.get(cid)
                if cb is None:
                    continue
                argl = 2 if cb.j.get('kind') == 'closure' else 1
                cl = [(cbb, ct) for cbb, ct in cb.calls() if call_matches(ct, ['Vec::<T, A>::clear'])]
                if cl and all(cb.dominates(cl[0][0], r) for r in cb.exits()):
                    co = origin(cb, cl[0][1]['args'][0])
                    ro = return_origin(cb)
                    if co.params() == {argl} and ro.params() == {argl}:
                        ok, why = True, 'the mapping closure clears its argument on every path before returning it'
            # the chain ends in that map (nothing appended after it)
            last_map = any(cname(c_).endswith('Iterator::map') for c_ in o.calls) or any(a[0] == 'call' and a[1].endswith('Iterator::map') for a in o.atoms)
            ctx.ob('POOLCLEAN', key, ok and last_map, short_loc(t.get('span')), 'buffers extended into %s in %s: %s' % (pool, short_fn(fl), why))
        else:
            ctx.ob('POOLSITES', key, False, short_loc(t.get('span')), 'pool %s accessed through %s: only pop / push / extend are reviewed' % (pool, meth))
    ctx.floor('POOLCLEAN', 'push/extend sites', npush, 5)
    ctx.floor('POOLSITES', 'pop sites', npop, 3)
    # pools are reached only through those calls: no other place borrows a pool field mutably
    others = 0
    for b in f.body_list:
        for bb in sorted(b.live_blocks()):
            if b.is_cleanup(bb):
                continue
            for s in b.stmts(bb):
                if 'assign' in s and s['rv']['k'] == 'ref' and s['rv'].get('mut') and any(isinstance(e, dict) and e.get('f') in P_ and e.get('of') == BUF for e in s['rv']['place'].get('p', [])):
                    # must feed one of the reviewed calls
                    dst = s['assign']['l']
                    used = False
                    for b2, bb2, t2, pool in sites:
                        if b2 is b:
                            for a in t2['args'][:1]:
                                pa = op_place(a)
                                if pa is not None and (pa['l'] == dst or dst in [d[4]['l'] for d in b.defs().get(pa['l'], [])] or True):
                                    used = True
                    if not used:
                        others += 1
                if 'assign' in s and any(isinstance(e, dict) and e.get('f') in P_ and e.get('of') == BUF for e in s['assign'].get('p', [])):
                    others += 1
    ctx.ob('POOLSITES', 'no-other-access', others == 0, None, '%d other mutable access(es) / assignment(s) to a pool field' % others)
    return P_


def configw(ctx, P_):
    f = ctx.f
    writes = []
    for b in f.body_list:
        for bb in sorted(b.live_blocks()):
            if b.is_cleanup(bb):
                continue
            for s in b.stmts(bb):
                if 'assign' in s:
                    for e in s['assign'].get('p', []):
                        if isinstance(e, dict) and e.get('of') in (CFG, BUF) and e.get('f') is not None:
                            # last field projection decides
                            pass
                    pr = [e for e in s['assign'].get('p', []) if isinstance(e, dict) and 'f' in e]
                    if pr and pr[-1].get('of') in (CFG, BUF):
                        writes.append((fn_label(b), pr[-1]['f'], short_loc(s.get('span'))))
                    # ... and a `&mut` (or raw mut) borrow of an option field is a write in waiting:
                    # `mem::replace(&mut self.allow_slow_sequence_to_bytes, v)` to "save and restore" a flag around a
                    # call leaves it changed when that call fails
                    rv = s['rv']
                    if rv.get('k') in ('ref', 'rawptr') and rv.get('mut'):
                        pr = [e for e in (rv.get('place') or {}).get('p', []) if isinstance(e, dict) and 'f' in e]
                        if pr and pr[-1].get('of') == CFG and pr[-1]['f'] not in ('buffers',):
                            writes.append((fn_label(b), pr[-1]['f'], short_loc(s.get('span'))))
    ok = all(fl == 'ser::SerializerConfig::allow_slow_sequence_to_bytes' and fld == 'allow_slow_sequence_to_bytes' for fl, fld, _ in writes)
    ctx.ob('CONFIGW', 'field-writes', ok and len(writes) >= 1, None,
           'direct writes to fields of SerializerConfig / Buffers: %s (reviewed: only the public flag setter)' % sorted({(short_fn(a), b_) for a, b_, _ in writes}))
    # ... and the library itself never calls the user's flag setter (it only ever builds its own throw-away configurations)
    callers = sorted({short_fn(fn_label(b)) for b in f.body_list for bb, t in b.calls()
                      if not b.is_cleanup(bb) and strip_generics(cname(t)).endswith('SerializerConfig::allow_slow_sequence_to_bytes')})
    ctx.ob('CONFIGW', 'setter-not-called-internally', not callers, None, 'library functions calling SerializerConfig::allow_slow_sequence_to_bytes: %s' % (callers or 'none'))
    # fields of the configuration: closed
    a = f.adts.get(CFG)
    flds = sorted(x['name'] for x in a['variants'][0]['fields']) if a else None
    ctx.ob('CONFIGW', 'config-fields', flds == ['allow_slow_sequence_to_bytes', 'buffers', 'schema'], None, 'fields of SerializerConfig: %s' % flds)
    a = f.adts.get(BUF)
    flds = sorted(x['name'] for x in a['variants'][0]['fields']) if a else None
    ctx.ob('CONFIGW', 'buffers-fields', flds is not None and set(flds) == P_, None, 'fields of Buffers: %s (all are pools)' % flds)
    # no interior mutability in the configuration
    bad = []
    for adt in (CFG, BUF):
        a = f.adts.get(adt)
        for x in (a['variants'][0]['fields'] if a else []):
            if any(k in x['ty'] for k in ('Cell<', 'RefCell<', 'Mutex<', 'Atomic', 'OnceLock<', 'OnceCell<', 'RwLock<')):
                bad.append('%s.%s: %s' % (adt, x['name'], x['ty']))
    ctx.ob('CONFIGW', 'no-interior-mutability', not bad, None, 'interior-mutability types in the configuration: %s' % (bad or 'none'))


def shared(ctx):
    f = ctx.f
    b = fn_by_label(f, 'ser::serializer::struct_or_map::serialize_record_value')
    ok = False
    det = 'serialize_record_value not found'
    if b is not None:
        ctx.touched(b)
        for bb in sorted(b.live_blocks()):
            for s in b.stmts(bb):
                if 'assign' in s and s['rv']['k'] == 'agg' and s['rv'].get('adt') == 'ser::SerializerState':
                    co = origin(b, s['rv']['ops'][s['rv']['fields'].index('config')])
                    wo = origin(b, s['rv']['ops'][s['rv']['fields'].index('writer')])
                    borrowed = {a[2] for a in co.atoms if a[0] == 'agg' and a[1] == 'ser::SerializerConfigRef'} == {'Borrowed'}
                    same = 'config' in co.fields and co.params() == {1}
                    pooled = bool(wo.fields & pools(f)) or any(cname(c).endswith('Vec::<T, A>::pop') for c in wo.calls)
                    ok = borrowed and same and pooled
                    det = 'side serializer borrows the same configuration: %s/%s; its writer is a pool buffer (or a fresh Vec): %s' % (borrowed, same, pooled)
    ctx.ob('SHARED', 'side-serializer-shares-config', ok, short_loc(b.span) if b else None, det)
