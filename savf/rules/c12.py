"""C12 - skipping a value consumes what reading it would (structural part).

  SKIPPAIR  for every kind, the ignoring path (deserialize_ignored_any, and the map-key deserializer's ignoring
            variant) either forwards to the reading path or reads the same wire shape
  UNITVAR   a unit variant standing for a union branch consumes the branch's payload; every VariantAccess method of
            the named access consumes through the branch deserializer
  BLOCKSKIP the byte count given to skip_bytes is the advertised block size just read (checked conversion), and the
            loop continues with the next header  (shared with C03/BLOCKS)
  RECORD    the record access yields one value per field: next_key peeks, next_value advances exactly once
  SKIPPAIR  ... ignored decimals are taken as raw bytes, never converted; ignoring a union keeps ignoring its branch
            (found F32)
It does NOT decide equality of consumed byte counts as numbers.
"""
from ..lib import *
from ..dematrix import *
from ..core import short_loc
from .c03 import de_matrix, fn_by_label, blocks_rule
from .c01 import de_class

EXPLANATION = ("Skip/read agreement, structural part: the ignoring path of the deserializer has, kind by kind, the same wire "
               "shape as the reading path (or forwards to it); unit variants of union branches consume the payload; block skips "
               "use the advertised byte size; the record access advances one field per value. Byte counts as numbers are not decided.")


def run(ctx):
    f = ctx.f
    dm = de_matrix(f)
    if 'deserialize_ignored_any' not in dm or 'deserialize_any' not in dm:
        ctx.ob('SKIPPAIR', 'anchor', False, None, 'deserialize_any / deserialize_ignored_any matrices not found')
        return
    anyb, anyc = dm['deserialize_any']
    igb, igc = dm['deserialize_ignored_any']
    ctx.touched(anyb); ctx.touched(igb)
    any_shape = {}
    for variants, r, toks in anyc:
        for kind in variants:
            any_shape[kind] = {de_class(kind, t[0], True) for t in toks} - {None}
    n = 0
    for variants, r, toks in igc:
        fwd = [t[0][1] for t in toks if t[0][0] == 'FWD']
        wire = {de_class(k_, t[0], True) for k_ in ['x'] for t in toks} - {None}
        for kind in sorted(variants):
            shp = {de_class(kind, t[0], True) for t in toks} - {None}
            if not shp and fwd:
                recv_ok = all(origin(tb, t['args'][0]).params() == {1} for tok, tb, tbb, t in toks if tok[0] == 'FWD' and tb is igb)
                ctx.ob('SKIPPAIR', 'ignored_any/%s' % kind, fwd == ['deserialize_any'] and recv_ok, short_loc(igb.span),
                       'ignoring %s forwards to %s on the same deserializer' % (kind, fwd), nontrivial=False)
            else:
                n += 1
                ok = shp == any_shape.get(kind)
                if kind in ('Decimal', 'BigDecimal') and any_shape.get(kind) == {'DEC'}:
                    # a decimal is its bytes: length-delimited (bytes decimal, big-decimal) or the fixed's size
                    ok = bool(shp) and shp <= ({'LD', 'SIZED'} if kind == 'Decimal' else {'LD'})
                # F4/F8 have no from_le on the ignoring path; compare sizes only
                ctx.ob('SKIPPAIR', 'ignored_any/%s' % kind, ok, short_loc(igb.term(r.switch_bb).get('span') or igb.span),
                       'ignoring %s reads %s; reading it reads %s' % (kind, sorted(shp), sorted(any_shape.get(kind, []))))
    ctx.floor('SKIPPAIR', 'kinds with a dedicated skipping arm', n, 7)
    # skipping must succeed wherever some way of reading does.  Two places where forwarding the ignored value to the
    # reading path is NOT neutral:
    #  - decimals: the reading path converts the bytes to a number of the target's width (96-bit mantissa for the default
    #    presentation), so ignoring 10^30 fails although reading it as i128 works - the ignoring path takes the bytes
    #    (length-delimited, or the fixed's size) without converting
    #  - unions: the reading path enters the chosen branch with deserialize_any, dropping the "ignored" hint for everything
    #    below - the ignoring path reads the discriminant and enters the branch with deserialize_ignored_any
    cell = {}
    for variants, r, toks in igc:
        for kind in variants:
            cell[kind] = [t[0] for t in toks]
    for kind in ('Decimal', 'BigDecimal'):
        toks = cell.get(kind, [])
        conv = any(t[0] == 'DECIMAL' for t in toks) or any(t[0] == 'FWD' for t in toks)
        raw = any(t[0] in ('LENDELIM', 'SIZED', 'SLICE', 'FIXED', 'SKIP') for t in toks)
        ctx.ob('SKIPPAIR', 'ignored_any/%s/skipped-not-converted' % kind, raw and not conv, short_loc(igb.span),
               'ignoring a %s takes its bytes without converting them to a number: %s (cell: %s)' % (kind, raw and not conv, sorted({t[0] for t in toks})))
    # a decimal's bytes are length-delimited only when it annotates `bytes`; over a `fixed` they are the fixed's size with no
    # length in front: each raw read of an ignored decimal sits under the matching test of the decimal's representation
    repr_ok, n_raw = True, 0
    for variants, r, toks in igc:
        if 'Decimal' not in variants:
            continue
        for tok, tb, tbb, t in toks:
            if tb is not igb or tok[0] not in ('LENDELIM', 'SIZED', 'SLICE', 'SKIP'):
                continue
            n_raw += 1
            want = 'Bytes' if tok[0] == 'LENDELIM' else 'Fixed'
            under = [taken[1] for d, si, taken in dominating_switches(igb, tbb) if si.get('kind') == 'enum' and (si.get('adt') or '').endswith('DecimalRepr') and taken[0] == 'variant']
            if not any(want in u and len(u) == 1 for u in under):
                repr_ok = False
    ctx.ob('SKIPPAIR', 'ignored_any/Decimal/raw-read-matches-representation', repr_ok and n_raw >= 1 or not any(t[0] in ('LENDELIM', 'SIZED', 'SLICE', 'SKIP') for t in cell.get('Decimal', [])), short_loc(igb.span),
           'raw reads of an ignored decimal: %d; each length-delimited one under repr = Bytes and each sized one under repr = Fixed: %s' % (n_raw, repr_ok))
    toks = cell.get('Union', [])
    keeps = any(t[0] == 'DISC' for t in toks) and [t[1] for t in toks if t[0] == 'FWD'] == ['deserialize_ignored_any']
    ctx.ob('SKIPPAIR', 'ignored_any/Union/keeps-ignoring', keeps, short_loc(igb.span),
           'ignoring a union reads the discriminant and enters the branch with deserialize_ignored_any: %s (cell: %s)' % (keeps, sorted({str(t) for t in toks})))
    # map-key deserializer
    sa = fn_by_label(f, '<de::deserializer::types::blocks::StringDeserializer as serde_core::de::Deserializer>::deserialize_any')
    si = fn_by_label(f, '<de::deserializer::types::blocks::StringDeserializer as serde_core::de::Deserializer>::deserialize_ignored_any')
    if sa is None or si is None:
        ctx.ob('SKIPPAIR', 'map-key', False, None, 'StringDeserializer methods not found')
    else:
        ta = [t[0][0] for t in region_tokens_de(sa, sa.live_blocks(), f) if t[0][0] in WIRE_KINDS]
        ti = [t[0][0] for t in region_tokens_de(si, si.live_blocks(), f) if t[0][0] in WIRE_KINDS]
        ctx.ob('SKIPPAIR', 'map-key', ta == ti == ['LENDELIM'], short_loc(si.span), 'map key: reading %s, ignoring %s' % (ta, ti))

    # unit variant of a union branch must consume
    VA = '<de::deserializer::types::union::SchemaTypeNameVariantAccess as serde_core::de::VariantAccess>::'
    for meth, want in (('unit_variant', 'deserialize_ignored_any'), ('newtype_variant_seed', 'DeserializeSeed::deserialize'),
                       ('tuple_variant', 'deserialize_tuple'), ('struct_variant', 'deserialize_map')):
        b = fn_by_label(f, VA + meth)
        if b is None:
            ctx.ob('UNITVAR', meth, False, None, 'anchor %s not found' % (VA + meth))
            continue
        ctx.touched(b)
        cs = []
        for bb, t in b.calls():
            c = t.get('callee') or ''
            if c.endswith(want) or cname(t).endswith(want):
                # the branch deserializer must be the receiver / argument
                if any('datum_deserializer' in origin(b, a).fields for a in t['args']):
                    cs.append((bb, t))
        ok = len(cs) == 1
        det = '%d call(s) to %s on self.datum_deserializer' % (len(cs), want)
        if ok:
            cbb = cs[0][0]
            rets = b.exits()
            if meth == 'unit_variant':
                te = try_edges(b, cbb)
                oks = ok_return_blocks(b)
                ok = te is not None and bool(oks) and all(b.dominates(te[0], o) for o in oks) and te[1] is not None and all_paths_err(b, te[1])
                if not ok and not oks:
                    # forwarded result: the returned value is the call's Result (possibly mapped), so its error is the error
                    ro = return_origin(b)
                    ok = any(c is cs[0][1] for c in ro.calls) and not [a for a in ro.atoms if a[0] == 'ret'] and all(b.dominates(cbb, r) for r in rets)
                det += '; every Ok return is dominated by its success edge and its error is propagated: %s' % ok
            else:
                ok = all(b.dominates(cbb, r) for r in rets)
                det += '; it dominates every return: %s' % ok
        ctx.ob('UNITVAR', meth, ok, short_loc(b.span), det)

    # shared block-skip obligations
    blocks_rule(ctx)
    # every skip_bytes implementation skips exactly n (shared with C11)
    from .c11 import skip_rule
    skip_rule(ctx)

    # record access: peek / advance
    rk = fn_by_label(f, '<de::deserializer::types::record::RecordMapAccess as serde_core::de::MapAccess>::next_key_seed')
    rv = fn_by_label(f, '<de::deserializer::types::record::RecordMapAccess as serde_core::de::MapAccess>::next_value_seed')
    if rk is None or rv is None:
        ctx.ob('RECORD', 'anchor', False, None, 'RecordMapAccess methods not found')
        return
    ctx.touched(rk); ctx.touched(rv)

    def nexts(b):
        return [(bb, t) for bb, t in b.calls() if (t.get('callee') or '').endswith('Iterator::next') and 'record_fields' in origin(b, t['args'][0]).fields]
    def stores(b):
        """the fields left kept as a slice: `let (field, rest) = self.record_fields.split_first()..; self.record_fields = rest`"""
        out = []
        for bb in sorted(b.live_blocks()):
            if b.is_cleanup(bb):
                continue
            for s_ in b.stmts(bb):
                pr = [e for e in s_.get('assign', {}).get('p', []) if isinstance(e, dict) and 'f' in e] if 'assign' in s_ else []
                if pr and pr[-1].get('f') == 'record_fields':
                    out.append((bb, s_))
        return out
    ctx.ob('RECORD', 'next_key/peeks', not nexts(rk) and not stores(rk), short_loc(rk.span), 'next_key_seed does not advance the field iterator: %s' % (not nexts(rk) and not stores(rk)))
    nv = nexts(rv)
    ok = len(nv) == 1 and all(rv.dominates(nv[0][0], r) for r in rv.exits()) and not stores(rv)
    split_adv = None
    if not nv and len(stores(rv)) == 1:
        sbb, st = stores(rv)[0]
        so = origin(rv, st['rv']['op']) if st['rv']['k'] == 'use' else None
        sf = [c for c in (so.calls if so else []) if call_matches(c, ['slice::<impl [T]>::split_first']) and 'record_fields' in origin(rv, c['args'][0]).fields]
        # (split_first() gives Option<(&T, &[T])>: the rest is element 1 of the payload, through `?`/expect/let-else)
        ip = index_path_from_call(rv, st['rv']['op'], sf[0]) if len(sf) == 1 else None
        via_unwrap = None
        if len(sf) == 1 and ip is None:
            for c in so.calls:
                if strip_generics(cname(c)).endswith(('Option::expect', 'Option::unwrap', 'Try::branch')) or 'expect' in cname(c):
                    via_unwrap = index_path_from_call(rv, st['rv']['op'], c)
        if ip in ([0, 1], [1]) or via_unwrap in ([1], [0, 1]):
            split_adv = sf[0]
            ok = all(rv.dominates(sbb, r) for r in rv.exits())
    ctx.ob('RECORD', 'next_value/advances-once', ok, short_loc(rv.span), 'next_value_seed advances the field iterator exactly once on every path: %s' % ok)
    # the value deserializer's node is that field's schema
    for bb in sorted(rv.live_blocks()):
        for s in rv.stmts(bb):
            if 'assign' in s and s['rv']['k'] == 'agg' and s['rv'].get('adt') == DD:
                o = origin(rv, s['rv']['ops'][s['rv']['fields'].index('schema_node')])
                okn = 'schema' in o.fields and (any((c.get('callee') or '').endswith('Iterator::next') for c in o.calls) or
                                                (split_adv is not None and any(c is split_adv for c in o.calls)))
                ctx.ob('RECORD', 'next_value/node-is-that-fields-schema', okn, short_loc(s.get('span')), 'node derives from %s' % o.describe())
    # Ok(None) (no more keys) only when first() found nothing left
    nones = []
    for bb in sorted(rk.live_blocks()):
        for s_ in rk.stmts(bb):
            if 'assign' in s_ and s_['rv']['k'] == 'agg' and s_['rv'].get('adt') == 'core::option::Option' and s_['rv']['variant'] == 'None' and not rk.is_cleanup(bb):
                nones.append(bb)
    okn = bool(nones)
    if not nones:
        # the combinator spelling: `first().map(|field| seed.deserialize(..)).transpose()` - None comes out of the library
        # exactly when first() found nothing; nothing else may decide it (no switch in the body besides cleanup)
        ro = origin(rk, {'move': {'l': 0}})
        chain = []
        tr_ = [c for c in ro.calls if strip_generics(cname(c)).endswith('Option::transpose')]
        if len(tr_) == 1 and len(ro.calls) == 1:
            chain.append('Option::transpose')
            ro = origin(rk, tr_[0]['args'][0])      # (origin looks through Option::map to what is mapped)
            if any(strip_generics(cname(c)).endswith('Option::map') for c in ro.calls):
                chain.append('Option::map')
        okn = chain == ['Option::transpose', 'Option::map'] and 'record_fields' in ro.fields and 'get' in ro.flags and \
            not [bb for bb in rk.live_blocks() if rk.term(bb)['k'] == 'switch' and not rk.is_cleanup(bb)]
    for nb_ in nones:
        good = False
        for names, adt, oo, d_, oth in option_guards(rk, nb_):
            if 'None' in names and 'record_fields' in oo.fields and 'get' in oo.flags:
                good = True
        # no other condition decides it
        extra = [1 for d, si, taken in dominating_switches(rk, nb_) if si.get('kind') != 'enum' or (si.get('adt') not in ('core::option::Option', 'core::ops::control_flow::ControlFlow', 'core::result::Result'))]
        okn = okn and good and not extra
    ctx.ob('RECORD', 'next_key/none-only-at-end', okn, short_loc(rk.span), 'next_key_seed yields None exactly when no field is left (first() is None): %s' % okn)
    # key = the peeked field's name; None at the end
    fo = [(bb, t) for bb, t in rk.calls() if call_matches(t, ['slice::<impl [T]>::first'])]
    ctx.ob('RECORD', 'next_key/first-of-remaining', len(fo) == 1 and 'record_fields' in origin(rk, fo[0][1]['args'][0]).fields if fo else False,
           short_loc(rk.span), 'key comes from record_fields.as_slice().first(): %s' % bool(fo))
