"""C02 - encoder soundness (structural part).

Decides, from the MIR of the current tree:
  WIRE       every (serde entry point x schema kind) cell of DatumSerializer emits only the wire primitives the
             Avro spec allows for that kind (incl. single-writer for decimals), and no non-null cell returns Ok
             without emitting
  RANGE      every value reaching write_varint in ser:: is range-checked (try_into + `?`), a lookup discriminant
             or a constant
  ENUM       enum indices written derive from the symbol lookup
  LEN        raw writes into fixed / duration cells are dominated by a length equality test
  UTF8       payloads of string/uuid cells come from &str
  UNIONDISC  the union discriminant written is the one stored with the chosen branch
  CONFLICT   equal-priority registrations become Conflict and resolve to None
  BLOCKS     block writer countdown / end-of-blocks guard
  SEQKIND    per-kind behaviour of the seq/tuple helper (duration 3x4 LE, fixed countdown, buffered bytes)
  DECSCALE   decimal::serialize compares the rescaled scale with the schema's
  DESCEND    DatumSerializer constructions take their node from the reviewed origins
  FREEZEMAP  the node kind dispatched on is built at freeze from a logical type only over the primitive the spec lets
             it annotate (duration: fixed of size 12 exactly), else from the plain type (shared with C01, C03)
             ... and the rescaled number is compared with the original: scaling down rounds    (found F22)
  RANGE      no unreviewed narrowing `as` cast on the way to the wire; f64 -> f32 narrowing is reported unless compared
             back with the original                                                            (F23, known finding)
  ENUM       ... the symbol -> index table holds one index per symbol (duplicate symbol => Err at freeze: F43)
  POOLCLEAN  pooled scratch buffers come back empty (shared with C13 / C14: a stale buffer prefixes a later Ok encoding)
  RANGE      a failed narrowing of the *value* is never replaced by a default (saturation reaches the decimal branches,
             which have no range check of their own); saturating a bound of the schema, or a length hint, is legal
  BLOCKS     the first block header is written whenever a count is stored (`min_len > 0`, nothing stricter); both
             spellings of the per-element countdown are read (checked_sub / `if n > 0 { n -= 1 }`)
  MAPKIND    a map entry is step, key, value in every presentation (serialize_key = step + key, serialize_value = value
             only, serialize_entry / struct field = step, key, value)
  DECSCALE   ... the sign scans advance byte by byte; the step back (keep one byte) only from a non-zero position and
             per sign; a fixed wider than 16 bytes is sign-extended one byte per position; the fit check looks at
             buf[0..start+1]; a fixed of size 0 holds only zero
It does NOT decide byte equality with a reference encoder.
"""
from ..lib import *
from ..sermatrix import *
from ..core import short_loc, op_place

EXPLANATION = ("Encoder soundness, structural part: the serializer's dispatch matrix (serde entry point x schema kind) is "
               "rebuilt from MIR match-arm regions and every cell is compared with the Avro binary-encoding table; "
               "range/length/enum/UTF-8 guards are established by provenance and dominance. Byte equality with a "
               "reference encoder is not decided.")

FIX4 = ('RAW', 4, 'le')
FIX8 = ('RAW', 8, 'le')
DYN = ('RAW', None, None)

ALLOWED = {
    'Null': set(),
    'Boolean': {('RAW', 1, None)},
    'Int': {('VARINT', 'i32')}, 'Date': {('VARINT', 'i32')}, 'TimeMillis': {('VARINT', 'i32')},
    'Long': {('VARINT', 'i64')}, 'TimeMicros': {('VARINT', 'i64')}, 'TimestampMillis': {('VARINT', 'i64')},
    'TimestampMicros': {('VARINT', 'i64')},
    'Float': {FIX4}, 'Double': {FIX8},
    'Bytes': {('LENDELIM',), ('SEQ', 'buffered_bytes'), ('SEQ', 'bytes'), ('FLAGCHECK',)},
    'String': {('LENDELIM',)}, 'Uuid': {('LENDELIM',)},
    'Fixed': {DYN, ('SEQ', 'fixed'), ('FLAGCHECK',)},
    'Enum': {('VARINT', 'i64'), ('VARINT', 'i32')},
    'Union': {('BYNAME',), ('CONT',)},
    'Array': {('BLOCKS',), ('SEQ', 'array')},
    'Map': {('REC', 'map')},
    'Record': {('REC', 'record')},
    'Decimal': {('DECIMAL',)}, 'BigDecimal': {('DECIMAL',)},
    'Duration': {DYN, ('SEQ', 'duration'), ('REC', 'duration')},
}


def tok_allowed(kind, tok):
    if tok[0] == 'FWD':
        return True          # same-node forward to a sibling entry point (receiver provenance checked by DESCEND)
    if kind == 'Union' and tok[0] == 'UNION':
        return True
    if tok[0] == 'VALUE':
        return True          # serialize_some / newtype: value serialised with the same node
    return tok in ALLOWED[kind]


def run(ctx):
    freezemap_rule(ctx)
    ser_narrowing_rule(ctx)
    # a pooled scratch buffer that is handed out non-empty prefixes a later value's encoding with stale bytes while the
    # serializer still returns Ok (shared with C13 / C14 / C15)
    from .c14 import pool_rule
    pool_rule(ctx)
    # decimal text is parsed exactly or refused (shared with C01)
    from .c01 import decimal_exact_parse_rule
    decimal_exact_parse_rule(ctx)
    # an enum's symbol -> index table holds one index per symbol (a repeated symbol is an error at freeze: with "last one
    # wins" the symbol is written with one index while another index reads back as the same symbol) (shared with C13)
    from .c13 import fieldnames_rule
    fieldnames_rule(ctx, adt='Enum', rule='ENUM', key='one-index-per-symbol')
    f = ctx.f
    m = matrix(f)
    ctx.floor('WIRE', 'serializer functions matching on the schema node', len(m), 13)
    ncells = 0
    nactive = 0
    for name, (b, cells) in sorted(m.items()):
        ctx.touched(b)
        dispatcher = name in ('serialize_lookup_union_variant_by_name',)
        seen_kinds = set()
        for variants, r, toks in cells:
            # tokens: rename the continuation call in the union dispatchers
            tl = []
            for tok, tb, tbb, t in toks:
                if tok[0] == 'UNCLASSIFIED' and tok[1].endswith('FnOnce::call_once'):
                    tok = ('CONT',)
                tl.append((tok, tb, tbb, t))
            ctx.analysed['call_sites'] += len(tl)
            tokset = {x[0] for x in tl}
            for kind in sorted(variants):
                seen_kinds.add(kind)
                ncells += 1
                bad = [x for x in tl if not tok_allowed(kind, x[0])]
                if dispatcher:
                    # by-name dispatch: on Union the discriminant (i64 varint) then the continuation; otherwise continuation only
                    bad = [x for x in tl if x[0] not in ({('VARINT', 'i64'), ('CONT',)} if kind == 'Union' else {('CONT',)})]
                if tokset:
                    nactive += 1
                detail = 'arm {%s} of `match schema_node` in %s emits %s; spec shape for %s allows %s' % (
                    ','.join(sorted(variants)) if len(variants) < 8 else '%d kinds' % len(variants), name,
                    sorted(tokset, key=str), kind, sorted(ALLOWED[kind], key=str))
                if bad:
                    detail += '\noffending: ' + '; '.join('%s at %s' % (x[0], short_loc(x[3].get('span'))) for x in bad[:4])
                ctx.ob('WIRE', '%s/%s' % (name, kind), not bad, short_loc(b.term(r.switch_bb).get('span') or b.span), detail,
                       nontrivial=bool(tokset))
                # Ok without emitting anything (non-null kinds)
                if kind != 'Null' and not dispatcher:
                    tokblocks = {tbb for tok, tb, tbb, t in tl if tb is b}
                    # closures built in the region that contain tokens count at their construction site
                    for cbb, cid, ops, dst in closures_built_in(b, r.blocks):
                        cb = f.bodies.get(cid)
                        if cb and region_tokens(cb, cb.live_blocks(), f):
                            tokblocks.add(cbb)
                    oks = ok_return_blocks(b, r.blocks)
                    silent = [ob_ for ob_ in oks if ob_ in b.reachable_from(r.entry, avoid=tokblocks)]
                    ctx.ob('WIRE', '%s/%s/ok-needs-bytes' % (name, kind), not silent,
                           short_loc(b.term(r.switch_bb).get('span') or b.span),
                           'arm {%s} in %s: %s' % (kind, name, 'an `Ok` return is reachable without any write for a kind whose '
                                                   'encoding is non-empty' if silent else 'no Ok return without a preceding write'),
                           nontrivial=bool(oks))
        if name.startswith('serialize_') and not dispatcher and '::' not in name:
            ctx.ob('WIRE', '%s/covers-all-kinds' % name, seen_kinds >= set(KINDS), short_loc(b.span),
                   'kinds seen in the match: %d of 23' % len(seen_kinds), nontrivial=False)
    ctx.floor('WIRE', 'cells', ncells, 23 * 12)
    ctx.floor('WIRE', 'non-error cells (arms that emit)', nactive, 60)

    # serde entry points that do not match themselves must forward to one that does (closed list)
    dsb = datum_serializer_bodies(f)
    for ep in SER_ENTRY:
        b = dsb.get(ep)
        if b is None:
            ctx.ob('WIRE', 'entry/%s' % ep, False, None, 'serde entry point %s of DatumSerializer not found' % ep)
            continue
        if ep in m:
            continue
        toks = region_tokens(b, b.live_blocks(), f)
        kinds = {t[0][0] for t in toks}
        ok = kinds <= {'FWD', 'BYNAME', 'VALUE'} and kinds
        ctx.ob('WIRE', 'entry/%s' % ep, ok, short_loc(b.span),
               '%s does not match on the node; it must only forward: tokens %s' % (ep, sorted({t[0] for t in toks}, key=str)))

    range_rule(ctx)
    enum_rule(ctx, m)
    len_rule(ctx, m)
    utf8_rule(ctx, m)
    uniondisc_rule(ctx)
    conflict_rule(ctx)
    blocks_rule(ctx)
    seqkind_rule(ctx)
    mapkind_rule(ctx)
    decscale_rule(ctx)
    descend_rule(ctx)
    # nothing is written for a unit variant under `null` only when it is the variant that stands for null (shared with C01)
    from .c01 import null_unit_variant_rule
    null_unit_variant_rule(ctx)


# reviewed exceptions for RANGE: function -> (max count, reason)
RANGE_REVIEWED = {
    'ser::serializer::decimal::': (2, 'lengths of a 16-byte mantissa plus two <=10-byte varint buffers; fits i32'),
}


def ser_bodies(f):
    return [b for b in f.body_list if b.id.startswith('ser::') or b.id.startswith('<ser::')]


def range_rule(ctx):
    f = ctx.f
    n = 0
    used = {}
    for b in ser_bodies(f):
        for bb, t in b.calls():
            if not call_matches(t, ['VarIntWriter::write_varint', 'VarIntWriter>::write_varint']):
                continue
            n += 1
            ctx.touched(b, 1)
            o = origin(b, t['args'][1])
            lossy = [x for x in o.flags if x.startswith('cast:')]
            arith = o.has_arith()
            nonconst = [a for a in o.atoms if a[0] != 'const']
            why = None
            if not nonconst:
                ok, why = True, 'constant'
            elif o.only_from_calls(['PerTypeLookup::<\'a>::unnamed', 'PerTypeLookup::<\'a>::named']) and not arith and not lossy:
                ok, why = True, 'discriminant stored in the union lookup'
            elif 'try_into' in o.flags and 'try' in o.flags and not lossy and not arith and 'unwrap_or' not in o.flags:
                ok, why = True, 'TryInto + `?`'
            else:
                fl = fn_label(b)
                base = next((k for k in RANGE_REVIEWED if fl.startswith(k)), None)
                if base in RANGE_REVIEWED and used.get(base, 0) < RANGE_REVIEWED[base][0]:
                    used[base] = used.get(base, 0) + 1
                    ok, why = True, 'reviewed: ' + RANGE_REVIEWED[base][1]
                else:
                    ok = False
            ty = t['substs'][-1] if t.get('substs') else '?'
            # key: function + ordinal of the write in that function
            ordn = sum(1 for bb2, t2 in b.calls() if bb2 < bb and call_matches(t2, ['VarIntWriter::write_varint', 'VarIntWriter>::write_varint']))
            ctx.ob('RANGE', '%s/varint#%d<%s>' % (fn_label(b), ordn, ty), ok, short_loc(t.get('span')),
                   'value written derives from %s -> %s' % (o.describe(), why or 'NOT range-checked (need TryInto+?, a lookup discriminant or a constant)'))
    ctx.floor('RANGE', 'write_varint sites in ser::', n, 14)
    # a failed narrowing of the value being serialized must reach Err: replacing it by a default (saturation) hands a
    # different number to whichever branch has no range check of its own (decimals, big-decimal).  Saturating a *bound*
    # taken from the schema (symbol count) is fine: only conversions of values deriving from a non-self parameter count
    sat = 0
    for b in ser_bodies(f):
        for bb, t in b.calls():
            cn = strip_generics(cname(t))
            if not cn.endswith(('Result::unwrap_or', 'Result::unwrap_or_else', 'Result::unwrap_or_default', 'Option::unwrap_or',
                                'Option::unwrap_or_else', 'Option::unwrap_or_default')) or not t.get('args'):
                continue
            o = origin(b, t['args'][0])
            if not ({'try_into', 'try_from'} & set(o.flags)):
                continue
            first_value_param = 1 if b.j['kind'] == 'closure' or not b.j.get('impl') else 2
            # (serde hands lengths over as usize / Option<usize>: a saturated *length hint* decides no byte of the value)
            vals = [p for p in o.params() if p >= first_value_param and (b.local_ty(p) or '') not in ('usize', 'core::option::Option<usize>')]
            if vals or 'upvar' in o.flags:
                sat += 1
                ctx.ob('RANGE', '%s/saturating-conversion#%d' % (fn_label(b), sat), False, short_loc(t.get('span')),
                       'the fallible conversion of a value deriving from %s is replaced by a default when it fails (%s): an out-of-range value must reach Err' % (o.describe()[:100], cn.split('::')[-1]))
    ctx.ob('RANGE', 'no-saturating-conversion-of-values', sat == 0, None, '%d conversion(s) of a serialized value fall back to a default instead of Err' % sat, nontrivial=False)


def enum_rule(ctx, m):
    f = ctx.f
    n = 0
    for name, (b, cells) in sorted(m.items()):
        for variants, r, toks in cells:
            if 'Enum' not in variants:
                continue
            for tok, tb, tbb, t in toks:
                if tok[0] != 'VARINT':
                    continue
                n += 1
                o = origin(tb, t['args'][1])
                from_lookup = 'get' in o.flags and 'per_name_lookup' in o.fields and o.params() <= {1}
                cmp_ok = False
                nonneg = False
                for g in cmp_guards(tb, tbb):
                    # value < symbols.len()  (either orientation), on the value being written
                    lo, hi = None, None
                    if g['op'] == 'Lt':
                        lo, hi = g['l'], g['r']
                    elif g['op'] == 'Gt':
                        lo, hi = g['r'], g['l']
                    if lo is not None and 'symbols' in hi.fields and 'len' in hi.flags and not hi.has_arith() \
                            and (lo.params() & o.params()) and not lo.has_arith():
                        cmp_ok = True
                    # value >= 0 for signed values
                    if g['op'] in ('Ge',) and g['r'].consts() == {0} and (g['l'].params() & o.params()):
                        nonneg = True
                    if g['op'] in ('Le',) and g['l'].consts() == {0} and (g['r'].params() & o.params()):
                        nonneg = True
                cmp_ok = cmp_ok and nonneg
                ctx.ob('ENUM', '%s/Enum' % name, from_lookup or cmp_ok, short_loc(t.get('span')),
                       'index written into an enum cell derives from %s; %s' % (
                           o.describe(), 'taken from per_name_lookup' if from_lookup else
                           'compared with symbols.len()' if cmp_ok else
                           'no symbol lookup and no comparison with the symbol count dominates the write'))
    ctx.floor('ENUM', 'enum cells writing an index', n, 1)


def len_rule(ctx, m):
    n = 0
    for name, (b, cells) in sorted(m.items()):
        for variants, r, toks in cells:
            for kind in ('Fixed', 'Duration'):
                if kind not in variants:
                    continue
                for tok, tb, tbb, t in toks:
                    if tok != DYN:
                        continue
                    n += 1
                    data = origin(tb, t['args'][1])
                    ok = False
                    why = 'no dominating length equality'
                    for g in cmp_guards(tb, tbb):
                        if g['op'] != 'Eq':
                            continue
                        sides = [g['l'], g['r']]
                        lens = [s for s in sides if 'len' in s.flags]
                        if not lens:
                            continue
                        other = [s for s in sides if s is not lens[0]]
                        if not other:
                            continue
                        o2 = other[0]
                        if kind == 'Fixed':
                            bound_ok = 'size' in o2.fields and not o2.has_arith()
                        else:
                            bound_ok = o2.consts() == {12} and not [a for a in o2.atoms if a[0] != 'const']
                        same_data = bool(lens[0].params() & data.params()) or bool(lens[0].atoms & data.atoms)
                        # the failing edge must not reach the write
                        escapes = any(tbb in tb.reachable_from(s) for s in g['other'])
                        if bound_ok and same_data and not escapes:
                            ok = True
                            why = 'len(data) == %s dominates the write; the other edge does not reach it' % ('size' if kind == 'Fixed' else '12')
                    ctx.ob('LEN', '%s/%s' % (name, kind), ok, short_loc(t.get('span')),
                           'raw write of %s in a %s cell: %s' % (data.describe(), kind, why))
    ctx.floor('LEN', 'raw writes into fixed/duration cells', n, 3)


def utf8_rule(ctx, m):
    n = 0
    for name, (b, cells) in sorted(m.items()):
        for variants, r, toks in cells:
            ks = [k for k in ('String', 'Uuid') if k in variants]
            if not ks:
                continue
            for tok, tb, tbb, t in toks:
                if tok != ('LENDELIM',):
                    continue
                o = origin(tb, t['args'][1])
                ok = 'as_bytes' in o.flags or any(call_matches(c, ['str::from_utf8', 'str::converts::from_utf8']) for c in o.calls)
                if not ok:
                    # a utf-8 validation of the same data dominating the write is accepted too
                    for bb2, t2 in tb.calls():
                        if call_matches(t2, ['str::converts::from_utf8', 'str::from_utf8']) and tb.dominates(bb2, tbb):
                            o2 = origin(tb, t2['args'][0])
                            if o2.params() & o.params():
                                ok = True
                for k in ks:
                    n += 1
                    ctx.ob('UTF8', '%s/%s' % (name, k), ok, short_loc(t.get('span')),
                           'payload of a %s cell derives from %s; %s' % (k, o.describe(), 'a &str (as_bytes) or validated' if ok else 'raw bytes with no UTF-8 validation'))
    ctx.floor('UTF8', 'length-delimited writes into string/uuid cells', n, 3)


def uniondisc_rule(ctx):
    f = ctx.f
    dsb = datum_serializer_bodies(f)
    n = 0
    for fn, lookup in (('serialize_union_unnamed', 'unnamed'), ('serialize_lookup_union_variant_by_name', 'named')):
        b = dsb.get(fn)
        if b is None:
            ctx.ob('UNIONDISC', fn, False, None, 'anchor %s not found' % fn)
            continue
        ctx.touched(b)
        sites = [(bb, t) for bb, t in b.calls() if call_matches(t, ['VarIntWriter::write_varint', 'VarIntWriter>::write_varint'])]
        for bb, t in sites:
            n += 1
            o = origin(b, t['args'][1])
            ok = o.only_from_calls(["PerTypeLookup::<'a>::" + lookup]) and not o.has_arith() and not [x for x in o.flags if x.startswith('cast:')]
            # the node handed to the continuation must come from the same lookup result
            ctx.ob('UNIONDISC', '%s/discriminant' % fn, ok, short_loc(t.get('span')),
                   'discriminant written derives from %s (expected: only PerTypeLookup::%s, no arithmetic)' % (o.describe(), lookup))
        ctx.ob('UNIONDISC', '%s/writes-once' % fn, len(sites) == 1, short_loc(b.span), '%d discriminant writes' % len(sites), nontrivial=False)
        # the DatumSerializer built for the branch takes its node from the same lookup
        for bb in sorted(b.live_blocks()):
            for s in b.stmts(bb):
                if 'assign' in s and s['rv']['k'] == 'agg' and s['rv'].get('adt') == DS:
                    idx = s['rv']['fields'].index('schema_node')
                    o = origin(b, s['rv']['ops'][idx])
                    ok = o.only_from_calls(["PerTypeLookup::<'a>::" + lookup]) and not [a for a in o.atoms if a[0] == 'const']
                    ctx.ob('UNIONDISC', '%s/branch-node' % fn, ok, short_loc(s.get('span')),
                           'node of the branch serializer derives from %s' % o.describe())
    # lookup accessors: the pair returned is the stored pair
    for acc, field in (('unnamed', 'per_direct_union_variant'), ('named', 'per_name')):
        bs = [b for b in f.body_list if fn_label(b) == 'schema::union_variants_per_type_lookup::PerTypeLookup::' + acc]
        if not bs:
            ctx.ob('UNIONDISC', 'lookup/%s' % acc, False, None, 'anchor PerTypeLookup::%s not found' % acc)
            continue
        b = bs[0]
        ctx.touched(b)
        # result derives from self.<field> (+ closure mapping (i, n) -> (i, n.as_ref()))
        rets = [d for d in b.defs().get(0, []) if d[0] in b.live_blocks()]
        o = Origin()
        for d in rets:
            if d[2] == 'call':
                for a in d[3]['args']:
                    oo = origin(b, a)
                    o.atoms |= oo.atoms
                    o.fields |= oo.fields
                    o.flags |= oo.flags
        ok = field in o.fields and not o.has_arith()
        n += 1
        ctx.ob('UNIONDISC', 'lookup/%s' % acc, ok, short_loc(b.span), 'result built from fields %s' % sorted(o.fields))
        # the mapping closure keeps element 0 untouched
        for cb in f.closures_of(b):
            for bb in cb.live_blocks():
                for s in cb.stmts(bb):
                    if 'assign' in s and s['assign']['l'] == 0 and s['rv']['k'] == 'agg' and s['rv'].get('agg') == 'tuple':
                        o0 = origin(cb, s['rv']['ops'][0])
                        ok0 = o0.params() and not o0.has_arith() and not [a for a in o0.atoms if a[0] == 'const']
                        ctx.ob('UNIONDISC', 'lookup/%s/closure-keeps-discriminant' % acc, ok0, short_loc(cb.span),
                               'tuple.0 derives from %s' % o0.describe())
    # PerTypeLookup::new: the discriminant is the enumerate() index converted with try_into
    nb = [b for b in f.body_list if fn_label(b) == 'schema::union_variants_per_type_lookup::PerTypeLookup::new']
    if not nb:
        ctx.ob('UNIONDISC', 'new/discriminant', False, None, 'anchor PerTypeLookup::new not found')
    else:
        b = nb[0]
        ctx.touched(b)
        found = False
        for bb, t in b.calls():
            if call_matches(t, ['TryInto<U>>::try_into', 'TryInto::try_into']):
                o = origin(b, t['args'][0])
                en = any(call_matches(c, ['Enumerate<I> as core::iter::traits::iterator::Iterator>::next', 'Iterator::next']) for c in o.calls)
                if en:
                    found = True
                    ctx.ob('UNIONDISC', 'new/discriminant', not o.has_arith(), short_loc(t.get('span')),
                           'discriminant = try_into(enumerate index): %s' % o.describe())
        if not found:
            ctx.ob('UNIONDISC', 'new/discriminant', False, short_loc(b.span), 'no try_into of the enumerate() index found in PerTypeLookup::new')
    ctx.floor('UNIONDISC', 'discriminant sites', n, 4)


def conflict_rule(ctx):
    f = ctx.f
    NSC = f.adt_by_label('schema::union_variants_per_type_lookup::PerTypeLookup::new::NoneSomeOrConflict')
    cands = [b for b in f.body_list if fn_label(b).startswith('schema::union_variants_per_type_lookup::PerTypeLookup::new::{closure')]
    # (the two closures may have become methods of the slot type - `slot.register(..)`, `.map(Slot::into_option)`: a
    # method only handed over as a function value stays a body of its own)
    cands += [b for b in f.body_list if b not in cands and b.j['kind'] != 'closure' and b.id.startswith('schema::union_variants_per_type_lookup::')
              and b.id in getattr(f, 'new_helpers', set()) and NSC and b.switches_on_adt(NSC)]
    reg = None
    fin = None
    for cb in cands:
        if cb.switches_on_adt('core::cmp::Ordering'):
            reg = cb
        elif cb.switches_on_adt(NSC) and not cb.switches_on_adt('core::cmp::Ordering'):
            fin = cb
    if reg is None or fin is None:
        ctx.ob('CONFLICT', 'anchors', False, None, 'register closure / final map closure of PerTypeLookup::new not found (NoneSomeOrConflict adt: %s)' % (NSC in f.adts))
        return
    ctx.touched(reg)
    ctx.touched(fin)

    def assigned_variants(body, blocks):
        out = set()
        for bb in blocks:
            for s in body.stmts(bb):
                if 'assign' in s and s['rv']['k'] == 'agg' and s['rv'].get('adt') == NSC:
                    out.add(s['rv']['variant'])
        return out
    for r in enum_regions(reg, 'core::cmp::Ordering'):
        got = assigned_variants(reg, r.blocks)
        if 'Equal' in r.variants:
            ctx.ob('CONFLICT', 'register/Equal', got == {'Conflict'}, short_loc(reg.span),
                   'equal priority: slot assigned %s (must become Conflict)' % sorted(got))
        if 'Less' in r.variants and len(r.variants) == 1:
            ctx.ob('CONFLICT', 'register/Less', not got, short_loc(reg.span), 'existing lower priority kept: assigns %s' % sorted(got))
        if 'Greater' in r.variants and len(r.variants) == 1:
            ctx.ob('CONFLICT', 'register/Greater', got == {'Some'}, short_loc(reg.span), 'new lower priority wins: assigns %s' % sorted(got))
    # every Some{..} stored carries the discriminant and node of the variant being registered, untouched
    nst = 0
    for bb in sorted(reg.live_blocks()):
        for s_ in reg.stmts(bb):
            if 'assign' in s_ and s_['rv']['k'] == 'agg' and s_['rv'].get('adt') == NSC and s_['rv']['variant'] == 'Some':
                nst += 1
                i = s_['rv']['fields'].index('discriminant_and_schema_node')
                o = origin(reg, s_['rv']['ops'][i])
                okd = 'upvar' in o.flags and not o.has_arith() and not [a for a in o.atoms if a[0] == 'const'] and not [x for x in o.flags if x.startswith('cast:')]
                ctx.ob('CONFLICT', 'register/stored-pair#%d' % nst, okd, short_loc(s_.get('span')),
                       '(discriminant, node) stored in the lookup slot derives from %s (must be the captured pair, no arithmetic)' % o.describe()[:150])
    ctx.floor('CONFLICT', 'slot assignments storing a branch', nst, 3)
    # the comparison is old.cmp(new) on the priorities
    for bb, t in reg.calls():
        if call_matches(t, ['Ord>::cmp', 'Ord::cmp']):
            o0 = origin(reg, t['args'][0])
            o1 = origin(reg, t['args'][1])
            ctx.ob('CONFLICT', 'register/cmp-operands', 'priority' in o0.fields and bool(o1.params()), short_loc(t.get('span')),
                   'cmp(%s, %s)' % (o0.describe(), o1.describe()))
    # Conflict arm with strictly lower priority: `priority < old_priority`
    for r in enum_regions(reg, NSC):
        if r.variants == frozenset(['Conflict']):
            got = assigned_variants(reg, r.blocks)
            strict = False
            for bb in r.blocks:
                for s in reg.stmts(bb):
                    if 'assign' in s and s['rv']['k'] == 'bin' and s['rv']['op'] in ('Lt', 'Gt'):
                        strict = True
            ctx.ob('CONFLICT', 'register/Conflict-arm', got <= {'Some'} and strict, short_loc(reg.span),
                   'conflict is replaced only through a strict comparison: assigns %s, strict=%s' % (sorted(got), strict))
    for r in enum_regions(fin, NSC):
        some = False
        none = False
        for bb in r.blocks:
            for s in fin.stmts(bb):
                if 'assign' in s and s['rv']['k'] == 'agg' and s['rv'].get('adt') == 'core::option::Option':
                    if s['rv']['variant'] == 'Some':
                        some = True
                    else:
                        none = True
        for v in r.variants:
            want_some = (v == 'Some')
            ctx.ob('CONFLICT', 'final/%s' % v, (some and not none) if want_some else (none and not some), short_loc(fin.span),
                   'final table maps %s to %s' % (v, 'Some' if some else 'None'))


def blocks_rule(ctx):
    f = ctx.f
    pre = 'ser::serializer::blocks::BlockWriter::'
    bs = {fn_label(b)[len(pre):]: b for b in f.body_list if fn_label(b).startswith(pre) and b.j['kind'] != 'closure'}
    for need in ('new', 'signal_next_record', 'end'):
        if need not in bs:
            ctx.ob('BLOCKS', need, False, None, 'anchor BlockWriter::%s not found' % need)
            return
    end = bs['end']
    ctx.touched(end)
    # the zero terminator is written only when current_block_len == 0
    for bb, t in end.calls():
        if call_matches(t, ['VarIntWriter::write_varint', 'VarIntWriter>::write_varint']):
            ok = False
            for g in cmp_guards(end, bb):
                if g['op'] == 'Eq' and ('current_block_len' in g['l'].fields or 'current_block_len' in g['r'].fields) and \
                        (g['l'].consts() == {0} or g['r'].consts() == {0}):
                    if all(not ok_return_blocks(end, end.reachable_from(s)) for s in g['other']):
                        ok = True
            ctx.ob('BLOCKS', 'end/count-exhausted', ok, short_loc(t.get('span')),
                   'end-of-blocks marker is written only under `current_block_len == 0`, the other edge returns no Ok: %s' % ok)
            o = origin(end, t['args'][1])
            ctx.ob('BLOCKS', 'end/terminator-zero', o.consts() == {0} and len(o.atoms) == 1, short_loc(t.get('span')), 'terminator value %s' % o.describe())
    snr = bs['signal_next_record']
    ctx.touched(snr)
    cs = [(bb, t) for bb, t in snr.calls() if call_matches(t, ['::checked_sub'])]
    ok = False
    d = 'no checked_sub(1) on current_block_len'
    for bb, t in cs:
        o0 = origin(snr, t['args'][0])
        o1 = origin(snr, t['args'][1])
        if 'current_block_len' in o0.fields and o1.consts() == {1}:
            ok = True
            d = 'countdown is checked_sub(current_block_len, 1)'
    # the explicit spelling: `if self.F > 0 { self.F -= 1 } else { new block of one }`
    explicit = []       # blocks holding `F - 1` under a positivity test of F
    if not ok:
        for bb in sorted(snr.live_blocks()):
            if snr.is_cleanup(bb):
                continue
            for s_ in snr.stmts(bb):
                if 'assign' in s_ and s_['rv']['k'] in ('bin', 'checked_bin') and s_['rv']['op'] in ('Sub', 'SubWithOverflow'):
                    lo_, ro_ = origin(snr, s_['rv']['l']), origin(snr, s_['rv']['r'])
                    if lo_.fields == {'current_block_len'} and not lo_.call_names() and not lo_.has_arith() and ro_.consts() == {1} and not ro_.params():
                        for g_ in cmp_guards(snr, bb):
                            if g_['l'].fields == {'current_block_len'} and not g_['l'].call_names() and not g_['r'].params() and not g_['r'].fields and \
                                    ((g_['op'] in ('Gt', 'Ne') and g_['r'].consts() == {0}) or (g_['op'] == 'Ge' and g_['r'].consts() == {1})):
                                explicit.append(bb)
        if explicit:
            ok = True
            d = 'countdown is current_block_len - 1 under a positivity test of it'
    ctx.ob('BLOCKS', 'signal/countdown', ok, short_loc(snr.span), d)
    # None arm (count exhausted) opens a new block of exactly one element
    for bb, t in snr.calls():
        if call_matches(t, ['VarIntWriter::write_varint', 'VarIntWriter>::write_varint']):
            o = origin(snr, t['args'][1])
            og = option_guards(snr, bb)
            none_arm = any('None' in names for names, adt, oo, d_, oth in og)
            if explicit and not none_arm:
                # (explicit spelling: the header is written where the count is known to be exhausted)
                none_arm = any(g_['l'].fields == {'current_block_len'} and not g_['l'].call_names() and not g_['r'].params() and not g_['r'].fields and
                               ((g_['op'] in ('Le', 'Eq') and g_['r'].consts() == {0}) or (g_['op'] == 'Lt' and g_['r'].consts() == {1}))
                               for g_ in cmp_guards(snr, bb))
            ctx.ob('BLOCKS', 'signal/new-block-of-one', o.consts() == {1} and none_arm, short_loc(t.get('span')),
                   'extra block header %s written in the None arm: %s' % (o.describe(), none_arm))
    # Some arm stores the decremented value
    st = False
    for bb in snr.live_blocks():
        for s in snr.stmts(bb):
            if 'assign' in s and any(isinstance(e, dict) and e.get('f') == 'current_block_len' for e in s['assign'].get('p', [])):
                o = origin(snr, s['rv']['op']) if s['rv']['k'] == 'use' else None
                if o and any(call_matches(c, ['::checked_sub']) for c in o.calls):
                    st = True
                if o and explicit and o.fields == {'current_block_len'} and o.consts() == {1} and not o.call_names() and \
                        {x for x in o.flags if x.startswith('arith:')} and {x for x in o.flags if x.startswith('arith:')} <= {'arith:Sub', 'arith:SubWithOverflow'}:
                    st = True
    ctx.ob('BLOCKS', 'signal/stores-decrement', st, short_loc(snr.span), 'current_block_len = checked_sub result: %s' % st)
    new = bs['new']
    ctx.touched(new)
    # the advertised count written is the one stored
    w = [(bb, t) for bb, t in new.calls() if call_matches(t, ['VarIntWriter::write_varint', 'VarIntWriter>::write_varint'])]
    okw = False
    for bb, t in w:
        o = origin(new, t['args'][1])
        if o.params() == {2} and 'try_into' in o.flags and not o.has_arith():
            okw = True
    stored = False
    for bb in new.live_blocks():
        for s in new.stmts(bb):
            if 'assign' in s and s['rv']['k'] == 'agg' and s['rv'].get('adt', '').endswith('BlockWriter'):
                idx = s['rv']['fields'].index('current_block_len')
                o = origin(new, s['rv']['ops'][idx])
                stored = o.params() == {2} and not o.has_arith()
    # ... and it is written whenever the stored count is not zero: the only guard on the way to the header write is
    # `min_len > 0` (`!= 0`, `>= 1`); under any stricter test a stored count of 1 lets the first element out with no header
    gok = bool(w)
    for bb, t in w:
        gs = [g for g in cmp_guards(new, bb) if not g.get('mirrored')]
        fine = [g for g in gs if g['l'].params() == {2} and not g['l'].has_arith() and not g['l'].call_names() and not g['r'].params() and
                ((g['op'] in ('Gt', 'Ne') and g['r'].consts() == {0}) or (g['op'] == 'Ge' and g['r'].consts() == {1}))]
        gok = gok and len(gs) == len(fine)
    ctx.ob('BLOCKS', 'new/header-written-whenever-count-stored', gok, short_loc(new.span),
           'the first block header is written under `min_len > 0` and nothing stricter: %s' % gok)
    ctx.ob('BLOCKS', 'new/advertised-equals-stored', okw and stored, short_loc(new.span),
           'header count = try_into(min_len): %s; stored count = min_len: %s' % (okw, stored))


MAPKIND = 'ser::serializer::struct_or_map::Kind'


def mapkind_rule(ctx):
    """An Avro map is blocks of (key, value) entries: the block step (countdown / one-entry block header) belongs to the
    *entry*, so it comes before the key; nothing sits between a key and its value.  Per presentation of an entry:
    serialize_key = step, then the key; serialize_value = the value and nothing else; serialize_entry and a struct
    field = step, key, value in that order."""
    f = ctx.f
    want = {'serialize_key': (1, 1), 'serialize_value': (0, 1), 'serialize_entry': (1, 2), 'serialize_field': (1, 2)}
    n = 0
    for b in f.body_list:
        if b.j['kind'] == 'closure' or b.name not in want or 'ser::serializer::struct_or_map::Serialize' not in b.id or not b.j.get('impl_trait'):
            continue
        for r in enum_regions(b, MAPKIND):
            if set(r.variants) != {'Map'}:
                continue
            toks = region_tokens(b, r.blocks, f)
            steps = [tbb for tok, tb, tbb, t in toks if tok == ('BLOCKSTEP',) and tb is b]
            vals = [tbb for tok, tb, tbb, t in toks if tok == ('VALUE',) and tb is b]
            other = sorted({tok for tok, tb, tbb, t in toks if tok not in (('BLOCKSTEP',), ('VALUE',))}, key=str)
            ws, wv = want[b.name]
            ok = len(steps) == ws and len(vals) == wv and not other and all(b.dominates(s_, v_) for s_ in steps for v_ in vals)
            n += 1
            ctx.touched(b)
            ctx.ob('MAPKIND', '%s/%s' % (short_fn(fn_label(b)).split(' as ')[-1].replace('>', ''), 'Map'), ok, short_loc(b.span),
                   '%s on a map: %d block step(s) (want %d), %d key/value write(s) (want %d), the step before them; other output: %s' % (b.name, len(steps), ws, len(vals), wv, other or 'none'))
    # (serialize_entry may be left to serde's default: key, then value)
    ctx.floor('MAPKIND', 'presentations of a map entry', n, 3)


KIND = 'ser::serializer::seq_or_tuple::Kind'


def seqkind_rule(ctx):
    f = ctx.f
    pre = 'ser::serializer::seq_or_tuple::SerializeSeqOrTupleOrTupleStruct::'
    bs = {fn_label(b)[len(pre):]: b for b in f.body_list if fn_label(b).startswith(pre) and b.j['kind'] != 'closure'}
    for need in ('serialize_element', 'end', 'bytes'):
        if need not in bs:
            ctx.ob('SEQKIND', need, False, None, 'anchor %s not found' % need)
            return
    se = bs['serialize_element']
    ctx.touched(se)
    allowed = {
        'Array': {('VALUE',), ('BLOCKSTEP',)},
        'Duration': {('RAW', 4, 'le')},
        'BufferedBytes': set(),
        'Fixed': {('RAW', 1, None)},
        'Finished': set(),
    }
    seen = set()
    for r in enum_regions(se, KIND):
        toks = region_tokens(se, r.blocks, f)
        ts = {t[0] for t in toks}
        # signal_next_record is the block step
        for v in r.variants:
            seen.add(v)
            ctx.ob('SEQKIND', 'element/%s' % v, ts <= allowed.get(v, set()), short_loc(se.span),
                   'element step for %s emits %s (allowed %s)' % (v, sorted(ts, key=str), sorted(allowed.get(v, set()), key=str)))
            if v == 'Array':
                sig = [tbb for tok, tb, tbb, t in toks if tok == ('BLOCKSTEP',) and tb is se]
                val = [tbb for tok, tb, tbb, t in toks if tok == ('VALUE',) and tb is se]
                ok = bool(sig) and bool(val) and all(any(se.dominates(s, v_) for s in sig) for v_ in val)
                ctx.ob('SEQKIND', 'element/Array/step-before-value', ok, short_loc(se.span), 'signal_next_record dominates the element write: %s' % ok)
            if v == 'Duration':
                g_ok = False
                for tok, tb, tbb, t in toks:
                    if tok == ('RAW', 4, 'le'):
                        for g in cmp_guards(se, tbb):
                            if g['op'] == 'Lt' and 'n_values' in g['l'].fields and g['r'].consts() == {3}:
                                g_ok = True
                            if g['op'] == 'Gt' and 'n_values' in g['r'].fields and g['l'].consts() == {3}:
                                g_ok = True
                inc = False
                for bb in r.blocks:
                    for s in se.stmts(bb):
                        if 'assign' in s and s['rv']['k'] == 'bin' and s['rv']['op'] in ('AddWithOverflow', 'Add') and const_int(s['rv']['r']) == 1:
                            inc = True
                ctx.ob('SEQKIND', 'element/Duration/at-most-3', g_ok and inc, short_loc(se.span), 'write dominated by n_values < 3: %s; counter incremented by 1: %s' % (g_ok, inc))
            if v == 'Fixed':
                cs = False
                for bb, t in se.calls():
                    if bb in r.blocks and call_matches(t, ['::checked_sub']):
                        o0 = origin(se, t['args'][0]); o1 = origin(se, t['args'][1])
                        if 'expected_len' in o0.fields and o1.consts() == {1}:
                            # None edge errs, Some edge reaches the write
                            cs = True
                wr_dom = False
                for tok, tb, tbb, t in toks:
                    if tok == ('RAW', 1, None):
                        for names, adt, oo, d_, oth in option_guards(se, tbb):
                            if 'Some' in names and any(call_matches(c, ['::checked_sub']) for c in oo.calls):
                                wr_dom = all(not ok_return_blocks(se, se.reachable_from(s)) for s in oth)
                # the same countdown spelt as a comparison: `if *expected_len == 0 { return Err(..) } *expected_len -= 1;`
                cmp_form = False
                if not (cs and wr_dom):
                    nonzero = False
                    for tok, tb, tbb, t in toks:
                        if tok == ('RAW', 1, None):
                            for g in cmp_guards(se, tbb):
                                lf, rf = 'expected_len' in g['l'].fields, 'expected_len' in g['r'].fields
                                lc, rc = g['l'].consts(), g['r'].consts()
                                holds = (g['op'] == 'Ne' and ((lf and rc == {0}) or (rf and lc == {0}))) or \
                                        (g['op'] == 'Gt' and lf and rc == {0}) or (g['op'] == 'Lt' and rf and lc == {0}) or \
                                        (g['op'] == 'Ge' and lf and rc == {1}) or (g['op'] == 'Le' and rf and lc == {1})
                                if holds and all(not ok_return_blocks(se, se.reachable_from(s_)) for s_ in g['other']):
                                    nonzero = True
                    dec = False
                    for bb in r.blocks:
                        for s_ in se.stmts(bb):
                            if 'assign' in s_ and s_['rv']['k'] == 'bin' and s_['rv']['op'] in ('SubWithOverflow', 'Sub') and const_int(s_['rv']['r']) == 1 \
                                    and 'expected_len' in origin(se, s_['rv']['l']).fields:
                                dec = True
                    cmp_form = nonzero and dec
                ctx.ob('SEQKIND', 'element/Fixed/countdown', (cs and wr_dom) or cmp_form, short_loc(se.span),
                       'checked_sub(expected_len,1): %s; byte written only in its Some arm and the None arm returns no Ok: %s; or written only under expected_len != 0 (the other edge returns no Ok) with expected_len decremented by 1: %s' % (cs, wr_dom, cmp_form))
    ctx.ob('SEQKIND', 'element/covers-kinds', seen >= {'Array', 'Duration', 'BufferedBytes', 'Fixed'}, short_loc(se.span), 'kinds %s' % sorted(seen), nontrivial=False)
    en = bs['end']
    ctx.touched(en)
    for r in enum_regions(en, KIND):
        if len(r.variants) != 1:
            continue
        v = list(r.variants)[0]
        if v == 'Duration':
            ok = _end_eq(en, r, 'n_values', 3)
            ctx.ob('SEQKIND', 'end/Duration/exactly-3', ok, short_loc(en.span), 'Ok only under n_values == 3: %s' % ok)
        if v == 'Fixed':
            ok = _end_eq(en, r, 'expected_len', 0)
            ctx.ob('SEQKIND', 'end/Fixed/exhausted', ok, short_loc(en.span), 'Ok only under expected_len == 0: %s' % ok)
        if v == 'BufferedBytes':
            toks = {t[0] for t in region_tokens(en, r.blocks, f)}
            ctx.ob('SEQKIND', 'end/BufferedBytes/length-delimited', toks == {('LENDELIM',)}, short_loc(en.span), 'emits %s' % sorted(toks, key=str))
        if v == 'Array':
            ok = ('BLOCKEND',) in {t[0] for t in region_tokens(en, r.blocks, f)}
            ctx.ob('SEQKIND', 'end/Array/terminator', ok, short_loc(en.span), 'calls BlockWriter::end: %s' % ok)
    by = bs['bytes']
    ctx.touched(by)
    # advertised length written == countdown start
    w = [(bb, t) for bb, t in by.calls() if call_matches(t, ['VarIntWriter::write_varint', 'VarIntWriter>::write_varint'])]
    fx = [(bb, t) for bb, t in by.calls() if call_matches(t, ['SerializeSeqOrTupleOrTupleStruct::<\'r, \'c, \'s, W>::fixed'])]
    ok = len(w) == 1 and len(fx) == 1
    if ok:
        o1 = origin(by, w[0][1]['args'][1])
        o2 = origin(by, fx[0][1]['args'][1])
        ok = o1.params() == {2} and o2.params() == {2} and not o1.has_arith() and not o2.has_arith() and by.dominates(w[0][0], fx[0][0])
    ctx.ob('SEQKIND', 'bytes/advertised-equals-countdown', ok, short_loc(by.span), 'len written and countdown both are the `len` parameter: %s' % ok)


def _end_eq(body, r, field, const):
    oks = ok_return_blocks(body, r.blocks)
    if not oks:
        return False
    for okb in oks:
        good = False
        for g in cmp_guards(body, okb):
            if g['op'] == 'Eq' and ((field in g['l'].fields and g['r'].consts() == {const}) or (field in g['r'].fields and g['l'].consts() == {const})):
                good = True
        if not good:
            return False
    return True


SPEC_LOGICAL_BASE = {   # Avro 1.11 "Logical Types": which primitive each logical type annotates
    'Decimal': {'Bytes', 'Fixed'}, 'Uuid': {'String'}, 'Date': {'Int'}, 'TimeMillis': {'Int'}, 'TimeMicros': {'Long'},
    'TimestampMillis': {'Long'}, 'TimestampMicros': {'Long'}, 'Duration': {'Fixed'}, 'BigDecimal': {'Bytes'},
}


LOSSY_CASTS_REVIEWED = {   # (short fn, from, to): (count, reason) - the serializer's only narrowing `as` casts
    ('serialize_unscaled', 'usize', 'i32'): (3, 'lengths of at most 16 bytes of an i128 (len <= 16)'),
}


def ser_narrowing_rule(ctx):
    """no value on its way to the wire is narrowed by an `as` cast in the serializer (values out of the Avro type's range
    must be an Err, never wrapped), and nothing is written through a partial-write primitive: closed, reviewed inventory"""
    f = ctx.f
    from .c03 import lossy_int_cast
    used = {}
    bad = []
    n = 0
    io_bad = []
    for b in f.body_list:
        fl = fn_label(b)
        if not fl.startswith(('ser::', '<ser::')):
            continue
        seen_spliced = set()
        for bb in sorted(b.live_blocks()):
            if b.is_cleanup(bb):
                continue
            for si_, s in enumerate(b.stmts(bb)):
                if 'assign' in s and s['rv']['k'] == 'cast' and s['rv']['cast'] == 'IntToInt' and const_int(s['rv']['op']) is None and lossy_int_cast(s['rv']['from'], s['rv']['to']):
                    # one source site spliced into its caller twice is one cast
                    ib = b.blocks[bb].get('inlined_bb') if bb < len(b.blocks) else None
                    if ib is not None:
                        if (ib, si_) in seen_spliced:
                            continue
                        seen_spliced.add((ib, si_))
                    n += 1
                    # `enum_value as u8 / usize` of a field-less enum: the discriminant, always in range
                    co = origin(b, s['rv']['op'])
                    if s['rv']['from'] == 'isize' and any(a[0] == 'discr' for a in co.atoms) and not co.has_arith():
                        continue
                    key = (short_fn(fl).split('::{')[0].rsplit('::', 1)[-1], s['rv']['from'], s['rv']['to'])
                    if key in LOSSY_CASTS_REVIEWED and used.get(key, 0) < LOSSY_CASTS_REVIEWED[key][0]:
                        used[key] = used.get(key, 0) + 1
                    else:
                        bad.append('%s: %s as %s at %s' % (short_fn(fl), s['rv']['from'], s['rv']['to'], short_loc(s.get('span'))))
                # f64 -> f32: out-of-range values become +-inf, small ones 0, the rest lose bits - "the same logical value"
                # only if the result is compared back with the original (f64::from(x as f32) == x, else Err)
                if 'assign' in s and s['rv']['k'] == 'cast' and s['rv']['cast'] == 'FloatToFloat' and s['rv']['from'] == 'f64' and s['rv']['to'] == 'f32':
                    dst = s['assign'].get('l')
                    checked = False
                    for sbb in sorted(b.live_blocks()):
                        if b.term(sbb)['k'] != 'switch' or not b.dominates(bb, sbb):
                            continue
                        cond = switch_condition(b, b.switch_info(sbb)) if b.switch_info(sbb).get('kind') != 'enum' else ('other',)
                        if cond[0] == 'cmp' and cond[1] in ('Eq', 'Ne'):
                            lo, ro = origin(b, cond[2]), origin(b, cond[3])
                            if any('cast:FloatToFloat:f32->f64' in x or x.startswith('cast:FloatToFloat') for x in (lo.flags | ro.flags)):
                                checked = True
                    ctx.ob('RANGE', 'float-narrowing/%s' % short_fn(fl).rsplit('::', 1)[-1], checked, short_loc(s.get('span')),
                           'f64 narrowed to f32 with `as` on its way to the wire (1e40 is written as +inf, 1e-60 as 0, 0.1 as 0.100000001490116...): compared back with the original: %s' % checked)
        for bb, t in b.calls():
            c = t.get('callee') or ''
            if c.startswith('std::io::Write::') and not c.endswith(('::write_all', '::write_fmt')) and not b.is_cleanup(bb):
                io_bad.append('%s in %s' % (c.rsplit('::', 1)[1], short_fn(fl)))
    ctx.ob('RANGE', 'no-unreviewed-narrowing-cast-in-ser', not bad, None, 'narrowing `as` casts in ser:: beyond the %d reviewed ones: %s' % (sum(v[0] for v in LOSSY_CASTS_REVIEWED.values()), bad or 'none'))
    ctx.ob('RANGE', 'ser-writes-only-with-write_all', not io_bad, None, 'partial-write / flush primitives used by the datum serializer: %s' % (io_bad or 'none'))


def freezemap_rule(ctx):
    """the node kind the (de)serializers dispatch on is built, at freeze, from the logical type only over the primitive
    the specification lets it annotate (duration: a fixed of size 12 exactly), and from the plain type otherwise - a
    logical type over anything else is ignored, never reinterpreted (shared by C01, C02, C03)"""
    f = ctx.f
    from .c03 import fn_by_label
    tf = fn_by_label(f, '<schema::self_referential::Schema as core::convert::TryFrom>::try_from')
    if tf is None:
        ctx.ob('FREEZEMAP', 'anchor', False, None, 'TryFrom<SchemaMut> for Schema not found')
        return
    ctx.touched(tf)
    SN = 'schema::self_referential::SchemaNode'
    n = 0
    for bb in sorted(tf.live_blocks()):
        if tf.is_cleanup(bb):
            continue
        for s in tf.stmts(bb):
            if not ('assign' in s and s['rv']['k'] == 'agg' and s['rv'].get('adt') == SN):
                continue
            v = s['rv']['variant']
            lts, rts, size12 = set(), set(), False
            for d_, si, taken in dominating_switches(tf, bb):
                if si.get('kind') == 'enum':
                    if taken[0] != 'variant':
                        continue
                    if si['adt'] == 'schema::safe::LogicalType':
                        lts |= set(taken[1])
                    elif si['adt'] == 'schema::safe::RegularType':
                        rts |= set(taken[1])
            for g in cmp_guards(tf, bb):
                if g['op'] == 'Eq' and (('size' in g['l'].fields and g['r'].consts() == {12}) or ('size' in g['r'].fields and g['l'].consts() == {12})):
                    size12 = True
            n += 1
            if v in SPEC_LOGICAL_BASE:
                ok = lts == {v} and len(rts) == 1 and rts <= SPEC_LOGICAL_BASE[v] and (v != 'Duration' or size12)
                det = 'SchemaNode::%s is built under logical type %s over %s%s (spec: %s over %s%s)' % (
                    v, sorted(lts), sorted(rts), ' with size == 12' if size12 else '', v, sorted(SPEC_LOGICAL_BASE[v]), ', size 12' if v == 'Duration' else '')
            else:
                ok = rts == {v} and not lts
                det = 'SchemaNode::%s is built from the plain type %s (logical types tested on the way: %s)' % (v, sorted(rts), sorted(lts) or 'none')
            key = '%s/%s' % (v, '+'.join(sorted(rts)) or '?')
            ctx.ob('FREEZEMAP', key, ok, short_loc(s.get('span')), det)
    ctx.floor('FREEZEMAP', 'node kinds built at freeze', n, 23)


def decscale_rule(ctx):
    f = ctx.f
    mod = [b for b in f.body_list if fn_label(b).startswith('ser::serializer::decimal::') and b.j['kind'] != 'closure']
    if not mod:
        ctx.ob('DECSCALE', 'anchor', False, None, 'module ser::serializer::decimal has no functions')
        return
    ok = False
    detail = 'no comparison of rust_decimal.scale() with the schema scale leading to Err'
    uses = 0
    fit = False
    for b in mod:
        ctx.touched(b)
        resc = [(bb, t) for bb, t in b.calls() if call_matches(t, ['Decimal::rescale'])]
        uses += len([1 for bb, t in b.calls() if 'can_truncate_without_altering_number' in cname(t)])
        for bb in sorted(b.live_blocks()):
            if b.term(bb)['k'] != 'switch':
                continue
            si = b.switch_info(bb)
            cond = switch_condition(b, si)
            if cond[0] != 'cmp':
                continue
            l = origin(b, cond[2]); r_ = origin(b, cond[3])
            if cond[1] in ('Ne', 'Eq'):
                sides = [l, r_]
                has_call = [s for s in sides if any(call_matches(c, ['Decimal::scale']) for c in s.calls)]
                has_field = [s for s in sides if 'scale' in s.fields]
                if has_call and has_field and resc and all(b.dominates(rb, bb) for rb, _ in resc):
                    tgt_ne = [x['bb'] for x in b.term(bb)['targets'] if x['v'] == 0]
                    oth = b.term(bb)['otherwise']
                    ne_edge = oth if cond[1] == 'Ne' else (tgt_ne[0] if tgt_ne else None)
                    if ne_edge is not None and all_paths_err(b, ne_edge):
                        ok = True
                        detail = 'rescale(schema scale) then `scale() != schema scale` returns Err on every path (%s)' % fn_label(b)
            if cond[1] in ('Lt', 'Ge', 'Gt', 'Le'):
                if any('can_truncate_without_altering_number' in n for n in l.call_names() | r_.call_names()):
                    if any(call_matches(c, ['::checked_sub']) for c in l.calls + r_.calls):
                        # exactly `can_truncate < start` (either orientation), nothing added or subtracted
                        helper_side, bound_side = (l, r_) if any('can_truncate_without_altering_number' in n for n in l.call_names()) else (r_, l)
                        strict_lt = (cond[1] == 'Lt' and helper_side is l) or (cond[1] == 'Gt' and helper_side is r_)
                        fit = not l.has_arith() and not r_.has_arith() and strict_lt and not helper_side.consts() - {0, 1} \
                            and not any(call_matches(c, ['::checked_sub']) for c in helper_side.calls)
    loc0 = short_loc(mod[0].span)
    ctx.ob('DECSCALE', 'serialize/scale-mismatch-errs', ok, loc0, detail)
    # rescale() to a SMALLER scale rounds (1.25 at scale 1 becomes 1.3): the value written must be checked to be the value
    # given - the rescaled number is compared with the original (Decimal's == is numeric: 1.20 == 1.2) and a difference
    # returns Err
    exact, det_e = False, 'no rescale call'
    for b in mod:
        resc = [(bb, t) for bb, t in b.calls() if call_matches(t, ['Decimal::rescale']) and not b.is_cleanup(bb)]
        if not resc:
            continue
        det_e = 'the rescaled decimal is never compared with the original one'
        for bb, t in b.calls():
            if b.is_cleanup(bb) or (t.get('callee') or '') not in ('core::cmp::PartialEq::ne', 'core::cmp::PartialEq::eq'):
                continue
            if not all('rust_decimal::Decimal' in ty or 'decimal::Decimal' in ty for ty in t.get('arg_tys', [])[:2]) or len(t.get('arg_tys', [])) < 2:
                continue
            if not all(b.dominates(rb, bb) for rb, _ in resc):
                continue
            sw = t.get('target')
            if sw is None or b.term(sw)['k'] != 'switch':
                continue
            t0 = [x['bb'] for x in b.term(sw)['targets'] if x['v'] == 0]
            diff_edge = b.term(sw)['otherwise'] if (t.get('callee') or '').endswith('::ne') else (t0[0] if t0 else None)
            writes = [x for x, t2 in b.calls() if 'serialize_unscaled' in cname(t2) or call_matches(t2, ['Decimal::mantissa'])]
            same_edge = [s_ for s_ in b.succs(sw) if s_ != diff_edge]
            # (the big-decimal arm, which does not rescale, joins before the write: every way from the rescale to a write
            # goes through the "unchanged" edge of this comparison)
            if diff_edge is not None and all_paths_err(b, diff_edge) and writes and same_edge and \
                    all(must_pass(b, b.term(rb)['target'], writes, same_edge) for rb, _ in resc):
                exact = True
                det_e = 'after rescale(schema scale) the number is compared with the original and a difference (rounding) returns Err before anything is written'
    ctx.ob('DECSCALE', 'serialize/rescale-is-exact', exact, loc0, det_e)
    ctx.ob('DECSCALE', 'serialize/sign-aware-truncation-helper', uses >= 2, loc0,
           'sign-aware truncation helper called %d time(s) (bytes repr and fixed fit check)' % uses)
    # inside the helper: when the run of sign bytes reaches the end of the buffer (value 0 or -1) one byte is kept.
    # Recognised idiom: `buf.get(i).map_or(DEFAULT, ..)` guarding the `-= 1`; DEFAULT is the constant true on every path
    # (for -1, dropping every 0xFF byte would encode the value 0).  Other idioms are not judged.
    hb = [x for x in f.body_list if x.j['kind'] != 'closure' and x.name == 'can_truncate_without_altering_number']
    if hb:
        h = hb[0]
        ctx.touched(h)
        defaults = []
        for bb, t in h.calls():
            if strip_generics(cname(t)).endswith('Option::map_or') and any(call_matches(c, ['slice::<impl [T]>::get']) for c in origin(h, t['args'][0]).calls):
                do = origin(h, t['args'][1])
                is_const = len(do.atoms) == 1 and all(a[0] == 'const' for a in do.atoms) and not do.flags
                defaults.append((is_const, sorted(str(a[1]) for a in do.atoms), bb))
        # the loop conditions use map_or(false, ..); the keep-one-byte tests use map_or(true, ..): none may be computed
        if defaults:
            computed = [d for d in defaults if not d[0]]
            trues = [d for d in defaults if d[0] and d[1] in (['True'], ['true'], ['1'])]
            # ... per sign: each scan loop (default false: the scan stops at the end) is followed by its own keep-one-byte
            # test (default true: at the end of the buffer one byte stays)
            from ..inventory import natural_loops
            lp_ = natural_loops(h)
            inl = lambda bb_: any(bb_ in blk_ for blk_ in lp_.values())
            scans = [d for d in defaults if inl(d[2])]
            keeps = [d for d in defaults if not inl(d[2])]
            # (a keep-one-byte test written as a `match` on buf.get(..) is another idiom: not judged here)
            paired = bool(scans) and len(keeps) <= len(scans) and all(d[1] in (['False'], ['false'], ['0']) for d in scans) and \
                all(d[1] in (['True'], ['true'], ['1']) for d in keeps)
            ctx.ob('DECSCALE', 'serialize/truncation-keeps-a-byte-at-end/per-sign', paired, short_loc(h.span),
                   'scan loops (end-of-buffer default false): %d; keep-one-byte tests after them (default true): %d of %d' % (
                       len(scans), sum(1 for d in keeps if d[1] in (['True'], ['true'], ['1'])), len(keeps)))
            # ... the scans advance one byte at a time, and the step back (keep one byte) is taken only from a position
            # that is not the start of the buffer
            adds, subs = [], []
            for bb_ in sorted(h.live_blocks()):
                if h.is_cleanup(bb_):
                    continue
                for s_ in h.stmts(bb_):
                    if 'assign' in s_ and s_['rv']['k'] in ('bin', 'checked_bin') and s_['rv']['op'] in ('AddWithOverflow', 'Add', 'SubWithOverflow', 'Sub'):
                        (adds if s_['rv']['op'].startswith('Add') else subs).append((bb_, const_int(s_['rv']['r']), op_place(s_['rv']['l'])))
            counters = {pl['l'] for _, _, pl in adds + subs if pl is not None and not pl.get('p')}
            steps_ok = len(counters) == 1 and bool(adds) and all(c_ == 1 for _, c_, _ in adds + subs) and \
                all(sum(1 for bb_, _, _ in adds if bb_ in blk_) == 1 for blk_ in lp_.values()) and all(inl(bb_) for bb_, _, _ in adds)
            back_ok = bool(subs) and len(subs) == len(lp_) and all(
                any(g_['op'] in ('Ne', 'Gt') and g_['r'].consts() == {0} and not g_['r'].params() and not g_['l'].params() and not g_['l'].fields and
                    not g_['l'].call_names() and g_['l'].consts() <= {0, 1} for g_ in cmp_guards(h, bb_))
                for bb_, _, _ in subs)
            ctx.ob('DECSCALE', 'serialize/truncation-scans-byte-by-byte', steps_ok, short_loc(h.span),
                   'one counter, advanced by the constant 1 once per scan-loop iteration and nowhere else: %s (steps %s)' % (steps_ok, sorted({c_ for _, c_, _ in adds})))
            ctx.ob('DECSCALE', 'serialize/truncation-steps-back-only-from-a-nonzero-position', back_ok, short_loc(h.span),
                   '%d step(s) back of 1, each under `position != 0`: %s' % (len(subs), back_ok))
            ctx.ob('DECSCALE', 'serialize/truncation-keeps-a-byte-at-end', not computed and len(trues) >= 1, short_loc(h.span),
                   'end-of-buffer defaults of the sign-byte scans: %s; computed (non-constant) defaults: %d; constant-true (keep one byte) defaults: %d' % (
                       [d[1] for d in defaults], len(computed), len(trues)))
    ctx.ob('DECSCALE', 'serialize/fixed-fit-check', fit, loc0, 'truncatable prefix compared with the bytes to drop (checked_sub result): %s' % fit)
    # a fixed of size 0 holds the number zero and nothing else: where the whole 16-byte buffer is dropped (no byte left
    # to run the fit check on) the unscaled value itself is compared with 0 - zero goes on, anything else is an error
    from .c19 import _CMP
    zero_only = None
    for b in mod:
        if not any('can_truncate_without_altering_number' in cname(t) for bb, t in b.calls()):
            continue
        for bb in sorted(b.live_blocks()):
            if b.term(bb)['k'] != 'switch' or b.is_cleanup(bb):
                continue
            si = b.switch_info(bb)
            if si.get('kind') == 'enum':
                continue
            cond = switch_condition(b, si)
            neg = False
            while cond[0] == 'not':
                neg, cond = not neg, cond[1]
            if cond[0] != 'cmp' or cond[1] not in _CMP:
                continue
            lo, ro = origin(b, cond[2]), origin(b, cond[3])
            if not (lo.params() and not lo.fields and not lo.call_names() and not lo.has_arith() and (b.local_ty(list(lo.params())[0]) or '') == 'i128'
                    and ro.consts() == {0} and not ro.params()):
                continue
            edges = {True: b.term(bb)['otherwise'], False: [x['bb'] for x in b.term(bb)['targets'] if x['v'] == 0][0]}
            truth = lambda v: _CMP[cond[1]](v, 0) != neg
            zero_only = (not all_paths_err(b, edges[truth(0)])) and all_paths_err(b, edges[truth(1)]) and all_paths_err(b, edges[truth(-1)])
    # a fixed wider than the 16-byte mantissa is padded on the left with the sign byte, one byte per missing position;
    # and the fit check of a narrower one looks at the bytes dropped plus the first one kept (prefix 0..start + 1)
    from ..inventory import natural_loops
    pad_ok = False
    prefixes = []
    for b in mod:
        if not any('can_truncate_without_altering_number' in cname(t) for bb, t in b.calls()):
            continue
        lps = natural_loops(b)
        for bb, t in b.calls():
            if b.is_cleanup(bb):
                continue
            if (t.get('callee') or '') == 'std::io::Write::write_all' and any(bb in blk for blk in lps.values()):
                ao = origin(b, t['args'][1])
                te = try_edges(b, bb)
                if ao.consts() == {0, 255} and 'array:1' in ao.flags and not ao.params() and te is not None and te[1] is not None and all_paths_err(b, te[1]):
                    pad_ok = True
            if call_matches(t, ['slice::<impl [T]>::get']) and len(t['args']) > 1:
                ro = origin(b, t['args'][1])
                ints_ = sorted(c for c in ro.consts() if isinstance(c, int) and not isinstance(c, bool))
                if any(a[0] == 'agg' and a[1].endswith('::Range') for a in ro.atoms) and any(call_matches(c, ['::checked_sub']) for c in ro.calls):
                    prefixes.append(ints_ == [0, 1] and {x for x in ro.flags if x.startswith('arith:')} <= {'arith:AddWithOverflow', 'arith:Add'})
    prefix_ok = bool(prefixes) and all(prefixes)
    # ... the sign byte is 0x00 for a mantissa whose top bit is clear and 0xFF otherwise, and after the padding the whole
    # mantissa is written (the arm's start index is the constant 0)
    sign_ok = None
    for b in mod:
        if not any('can_truncate_without_altering_number' in cname(t) for bb, t in b.calls()):
            continue
        for bb in sorted(b.live_blocks()):
            if b.is_cleanup(bb):
                continue
            for s_ in b.stmts(bb):
                if 'assign' in s_ and not s_['assign'].get('p') and s_['rv']['k'] == 'use' and const_int(s_['rv']['op']) in (0, 255) and b.local_ty(s_['assign']['l']) == 'u8':
                    v_ = const_int(s_['rv']['op'])
                    gs_ = [g for g in cmp_guards(b, bb) if not g.get('mirrored') and any(x.startswith('arith:BitAnd') for x in g['l'].flags) and 128 in g['l'].consts() and g['r'].consts() == {0}]
                    if not gs_:
                        continue
                    want_ = 'Eq' if v_ == 0 else 'Ne'
                    good_ = gs_[-1]['op'] == want_ if len(gs_) == 1 else any(g['op'] == want_ for g in gs_) and not any(g['op'] == ('Ne' if want_ == 'Eq' else 'Eq') for g in gs_)
                    sign_ok = good_ if sign_ok is None else (sign_ok and good_)
    whole = None
    for b in mod:
        if not any('can_truncate_without_altering_number' in cname(t) for bb, t in b.calls()):
            continue
        for bb, t in b.calls():
            if (t.get('callee') or '') != 'std::io::Write::write_all' or b.is_cleanup(bb):
                continue
            ao = origin(b, t['args'][1])
            if 'to_be' not in ao.flags:
                continue
            for c in ao.calls:
                if call_matches(c, ['Index::index', 'Index<I>>::index', 'Index<I> for [T; N]>::index']):
                    ro = origin(b, c['args'][1])
                    if any(a[0] == 'agg' and a[1].endswith('RangeFrom') for a in ro.atoms):
                        whole = sorted(x for x in ro.consts() if isinstance(x, int) and not isinstance(x, bool)) == [0] and not ro.has_arith()
    ctx.ob('DECSCALE', 'serialize/mantissa-written-from-its-computed-start', bool(whole), loc0,
           'the mantissa bytes written are buf[start..] with start = the truncation point, the fit-checked 16 - size, or the constant 0 behind the padding: %s' % whole)
    ctx.ob('DECSCALE', 'serialize/sign-byte-follows-the-top-bit', bool(sign_ok), loc0,
           'padding byte 0x00 under (buf[0] & 0x80) == 0 and 0xFF otherwise: %s' % sign_ok)
    ctx.ob('DECSCALE', 'serialize/fixed-wider-than-the-mantissa-is-sign-extended', pad_ok, loc0,
           'a loop writes one sign byte (0x00 / 0xFF) per missing position and propagates a failed write: %s' % pad_ok)
    ctx.ob('DECSCALE', 'serialize/fit-check-prefix-is-dropped-bytes-plus-one', prefix_ok, loc0,
           'the bytes judged by the fit check are buf[0 .. start + 1] (start = 16 - size): %s' % prefix_ok)
    ctx.ob('DECSCALE', 'serialize/fixed-of-size-zero-holds-only-zero', bool(zero_only), loc0,
           'the unscaled value is compared with 0 where no byte is kept: zero goes on, positive and negative are errors: %s' % zero_only)


# where a DatumSerializer may be built, and where its node may come from
DESCEND_REVIEWED = {
    'ser::serializer::DatumSerializer::serialize_union_unnamed': 'node = branch found by PerTypeLookup::unnamed',
    'ser::serializer::DatumSerializer::serialize_lookup_union_variant_by_name': 'node = branch found by PerTypeLookup::named',
    'ser::SerializerState::serializer': 'node = schema root',
    'ser::SerializerState::serializer_overriding_schema_root': 'node = caller-supplied root (crate-internal: container header)',
    'ser::serializer::seq_or_tuple::SerializeSeqOrTupleOrTupleStruct::serialize_element': 'node = array items',
}


def descend_rule(ctx):
    f = ctx.f
    n = 0
    for b in f.body_list:
        for bb in sorted(b.live_blocks()):
            if b.is_cleanup(bb):
                continue
            for s in b.stmts(bb):
                if 'assign' in s and s['rv']['k'] == 'agg' and s['rv'].get('adt') == DS:
                    n += 1
                    ctx.touched(b)
                    idx = s['rv']['fields'].index('schema_node')
                    o = origin(b, s['rv']['ops'][idx])
                    fl = fn_label(b).split('::{closure')[0]
                    ok = False
                    why = ''
                    if fl in DESCEND_REVIEWED:
                        ok = True
                        why = DESCEND_REVIEWED[fl]
                        if fl.endswith('serialize_element'):
                            ok = 'elements_schema' in o.fields
                    elif fl.startswith('ser::serializer::struct_or_map::') or fl.startswith('<ser::serializer::struct_or_map::'):
                        # map key: the constant String node; map value: elements_schema; record field: the node handed in
                        # together with its index (pairing checked by C13)
                        aggs = {a[2] for a in o.atoms if a[0] == 'agg' and a[1] == SCHEMA_NODE}
                        # what is serialised with this serializer: the key or the value parameter?
                        role = None
                        dst = s['assign']['l']
                        for bb2, t2 in b.calls():
                            if (t2.get('callee') or '') == 'serde_core::ser::Serialize::serialize' and len(t2['args']) == 2:
                                p1 = op_place(t2['args'][1])
                                if p1 is not None and p1['l'] == dst:
                                    vo = origin(b, t2['args'][0])
                                    # which parameter of the serde method is it (by position, not by its spelling)
                                    roles = {'serialize_entry': {2: 'key', 3: 'value'}, 'serialize_key': {2: 'key'}, 'serialize_value': {2: 'value'},
                                             'serialize_field': {2: 'key', 3: 'value'}, 'serialize_element': {2: 'value'}}.get(b.name, {})
                                    nm = {roles.get(a[1]) for a in vo.atoms if a[0] == 'param'}
                                    role = 'key' if nm == {'key'} else 'value' if nm == {'value'} else None
                        if aggs:
                            ok = aggs == {'String'} and not o.params() and role == 'key'
                            why = 'map key (role: %s): constant String node' % role
                        elif 'elements_schema' in o.fields:
                            ok = role == 'value'
                            why = 'map value node (role: %s)' % role
                        elif fl.endswith('serialize_record_value') and o.params():
                            ok = True
                            why = 'record field node (parameter, paired with its index by field_idx: C13)'
                    ctx.ob('DESCEND', '%s' % fl, ok, short_loc(s.get('span')),
                           'DatumSerializer built with node from %s (%s)' % (o.describe(), why or 'NOT a reviewed construction site'))
    ctx.floor('DESCEND', 'DatumSerializer constructions', n, 8)
