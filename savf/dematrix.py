"""Deserializer dispatch matrix: (serde hint x schema kind) -> wire tokens / visitor calls, from MIR arm regions."""
from .lib import *
from .core import op_place, const_int
from .sermatrix import KINDS

DD = 'de::deserializer::DatumDeserializer'

DE_ENTRY = ['deserialize_any', 'deserialize_bool', 'deserialize_i8', 'deserialize_i16', 'deserialize_i32',
            'deserialize_i64', 'deserialize_i128', 'deserialize_u8', 'deserialize_u16', 'deserialize_u32',
            'deserialize_u64', 'deserialize_u128', 'deserialize_f32', 'deserialize_f64', 'deserialize_char',
            'deserialize_str', 'deserialize_string', 'deserialize_bytes', 'deserialize_byte_buf',
            'deserialize_option', 'deserialize_unit', 'deserialize_unit_struct', 'deserialize_newtype_struct',
            'deserialize_seq', 'deserialize_tuple', 'deserialize_tuple_struct', 'deserialize_map',
            'deserialize_struct', 'deserialize_enum', 'deserialize_identifier', 'deserialize_ignored_any']

ACCESS_ADTS = {
    'de::deserializer::types::blocks::ArraySeqAccess': 'ArraySeqAccess',
    'de::deserializer::types::blocks::MapMapAccess': 'MapMapAccess',
    'de::deserializer::types::record::RecordMapAccess': 'RecordMapAccess',
    'de::deserializer::types::duration::DurationMapAndSeqAccess': 'DurationMapAndSeqAccess',
    'de::deserializer::types::union::SchemaTypeNameEnumAccess': 'SchemaTypeNameEnumAccess',
    'de::deserializer::unit_variant_enum_access::UnitVariantEnumAccess': 'UnitVariantEnumAccess',
    'de::deserializer::DatumDeserializer': 'DatumDeserializer',
    'de::deserializer::types::union::FavorSchemaTypeNameIfEnumHintDatumDeserializer': 'FavorSchemaTypeName',
}


def reader_touching(t):
    for ty in t.get('arg_tys', []):
        if 'DeserializerState<' in ty or ty in ('&mut R', 'R') or 'DatumDeserializer<' in ty or 'BlockReader<' in ty:
            return True
    return False


def visitor_kind(ty):
    if 'StringVisitor<' in ty:
        return 'str'
    if 'BytesVisitor<' in ty:
        return 'bytes'
    if 'closure' in ty:
        return 'closure'
    return 'other'


def classify_de(body, bb, t):
    c = strip_generics(cname(t))
    callee = strip_generics(t.get('callee') or '')
    if callee.endswith('de::read::Read::read_varint') or c.endswith('::read_varint') and 'de::read' in c:
        ty = t['substs'][-1] if t.get('substs') else '?'
        return ('VARINT', ty)
    if callee.endswith('integer_encoding::reader::VarIntReader::read_varint'):
        ty = t['substs'][-1] if t.get('substs') else '?'
        return ('VARINT_IO', ty)
    if callee.endswith('de::read::Read::read_const_size_buf') or c.endswith('::read_const_size_buf'):
        n = t['substs'][-1] if t.get('substs') else '?'
        try:
            n = int(n.split('_')[0])
        except ValueError:
            pass
        return ('FIXED', n)
    if callee.endswith('de::read::ReadSlice::read_slice') or (c.endswith('::read_slice') and 'de::read' in c):
        n = origin(body, t['args'][1])
        vk = visitor_kind(t['arg_tys'][2]) if len(t.get('arg_tys', [])) > 2 else 'other'
        if n.consts() and not [a for a in n.atoms if a[0] != 'const']:
            return ('FIXED', list(n.consts())[0], vk)
        if 'size' in n.fields and not n.has_arith():
            return ('SIZED', vk)
        return ('SLICE', vk, n.describe())
    if callee.endswith('de::read::Read::skip_bytes') or c.endswith('::skip_bytes'):
        return ('SKIP',)
    sf = short_fn(c) if (c.startswith('de::') or c.startswith('<de::')) else ''
    if sf == 'read_length_delimited':
        vk = visitor_kind(t['arg_tys'][1]) if len(t.get('arg_tys', [])) > 1 else 'other'
        return ('LENDELIM', vk)
    if sf == 'read_len':
        return ('LEN',)
    if sf == 'read_bool':
        return ('BOOL',)
    if sf == 'read_enum_as_str':
        return ('ENUMSTR',)
    if sf == 'read_decimal':
        return ('DECIMAL',)
    if sf == 'read_union_discriminant':
        return ('DISC',)
    if sf == 'read_discriminant':
        return ('DISCRAW',)
    if sf in ('BlockReader::has_more', 'BlockReader::expect_end'):
        return ('MORE',)       # the block reader's own header protocol (judged by the BLOCKS rules), not a read of the cell
    if sf == 'BlockReader::new':
        ign = const_int(t['args'][1])
        return ('BLOCKS', ign)
    if sf.endswith('::dec') and 'allowed_depth' in c or sf == 'AllowedDepth::dec':
        return ('DEC',)
    if callee.startswith('serde_core::de::Visitor::visit_'):
        return ('VISIT', callee.rsplit('::', 1)[1][len('visit_'):])
    if callee.startswith('serde_core::de::Deserializer::deserialize_') or c.startswith('<de::deserializer::DatumDeserializer as serde_core::de::Deserializer>::'):
        self_ty = t['arg_tys'][0] if t.get('arg_tys') else ''
        if 'DatumDeserializer<' in self_ty:
            return ('FWD', callee.rsplit('::', 1)[1])
    if callee.endswith('serde_core::de::DeserializeSeed::deserialize'):
        return ('SEED',)
    if reader_touching(t):
        if transparent(t):
            return None
        return ('UNCLASSIFIED', c)
    return None


def aggregates_in(body, blocks):
    out = []
    for bb in sorted(blocks):
        if body.is_cleanup(bb):
            continue
        for s in body.stmts(bb):
            if 'assign' in s and s['rv']['k'] == 'agg' and s['rv'].get('agg') == 'adt':
                nm = ACCESS_ADTS.get(strip_generics(s['rv']['adt']))
                if nm:
                    out.append((nm, bb, s))
    return out


def dispatching_helpers(body, blocks, facts):
    """calls, in the region, to a private de:: helper that itself matches on the schema node: [(call term, helper body)]"""
    out = []
    for b, bb, t in calls_in(body, blocks, facts):
        tok = classify_de(b, bb, t)
        if tok is not None and tok[0] == 'UNCLASSIFIED':
            cb = facts.bodies.get(cname(t))
            if cb is not None and (cb.id.startswith('de::') or cb.id.startswith('<de::')) and cb is not body and enum_regions(cb, SCHEMA_NODE):
                out.append((t, cb))
    return out


def region_tokens_de(body, blocks, facts, _depth=0, skip_calls=()):
    out = []
    for b, bb, t in calls_in(body, blocks, facts):
        if any(t is x for x in skip_calls):
            continue
        tok = classify_de(b, bb, t)
        if tok is not None and tok[0] == 'UNCLASSIFIED' and _depth < 2:
            # a private helper taking the reader: look through it
            cb = facts.bodies.get(cname(t))
            if cb is not None and (cb.id.startswith('de::') or cb.id.startswith('<de::')) and cb is not body:
                out.extend(region_tokens_de(cb, cb.live_blocks(), facts, _depth + 1))
                continue
        if tok is not None:
            out.append((tok, b, bb, t))
    for nm, bb, s in aggregates_in(body, blocks):
        out.append((('ACCESS', nm), body, bb, s))
    return out


def datum_deserializer_bodies(facts):
    out = {}
    for b in facts.body_list:
        if b.j['kind'] == 'closure':
            continue
        if b.j.get('self_adt') == DD and b.j.get('impl_trait') == 'serde_core::de::Deserializer':
            out[b.name] = b
    return out


def matrix_de(facts):
    res = {}
    for name, b in datum_deserializer_bodies(facts).items():
        regs = enum_regions(b, SCHEMA_NODE)
        if not regs:
            continue
        cells = []
        for r in regs:
            dh = dispatching_helpers(b, r.blocks, facts)
            if len(dh) == 1:
                # the arm hands over to a helper with its own match on the node: one cell per arm of the helper
                ht, hb = dh[0]
                outer = region_tokens_de(b, r.blocks, facts, skip_calls=[ht])
                covered = set()
                for hr in enum_regions(hb, SCHEMA_NODE):
                    vs = frozenset(r.variants) & frozenset(hr.variants)
                    if vs:
                        covered |= vs
                        cells.append((vs, r, outer + region_tokens_de(hb, hr.blocks, facts, 1)))
                rest = frozenset(r.variants) - covered
                if rest:
                    cells.append((rest, r, outer))
            else:
                cells.append((r.variants, r, region_tokens_de(b, r.blocks, facts)))
        res[name] = (b, cells)
    return res


WIRE_KINDS = ('VARINT', 'FIXED', 'SIZED', 'SLICE', 'LENDELIM', 'BOOL', 'ENUMSTR', 'DECIMAL', 'DISC', 'DISCRAW', 'BLOCKS',
              'SKIP', 'LEN', 'VARINT_IO', 'UNCLASSIFIED')


def wire_only(toks):
    return [x for x in toks if x[0][0] in WIRE_KINDS]
