"""Union lookup registrations extracted from PerTypeLookup::new (kind -> keys/priorities, type names, named)."""
from .lib import *
from .core import Inconclusive

LOOKUP_NEW = 'schema::union_variants_per_type_lookup::PerTypeLookup::new'
KEY_ADT = 'schema::union_variants_per_type_lookup::UnionVariantLookupKey'


def registrations(facts):
    b = None
    for x in facts.body_list:
        if fn_label(x) == LOOKUP_NEW:
            b = x
    if b is None:
        raise Inconclusive('anchor PerTypeLookup::new not found')
    regs = enum_regions(b, SCHEMA_NODE)
    out = {}
    for r in regs:
        for kind in r.variants:
            ent = out.setdefault(kind, {'keys': {}, 'type_names': set(), 'named': False, 'loc': None})
        for bb in sorted(r.blocks):
            t = b.term(bb)
            if t['k'] != 'call' or b.is_cleanup(bb):
                continue
            res = t.get('resolved') or ''
            if '{closure#' not in res or len(t.get('arg_tys', [])) < 2:
                continue
            aty = t['arg_tys'][1]
            o = origin(b, t['args'][1])
            for kind in r.variants:
                ent = out[kind]
                ent['loc'] = t.get('span')
                if KEY_ADT.rsplit('::', 1)[1] in aty:
                    keys = [a[2] for a in o.atoms if a[0] == 'agg' and a[1] == KEY_ADT]
                    prios = [a[1] for a in o.atoms if a[0] == 'const' and isinstance(a[1], int)]
                    for k in keys:
                        ent['keys'][k] = prios[0] if len(prios) == 1 else None
                elif '&str' in aty or "&'static str" in aty:
                    for a in o.atoms:
                        if a[0] == 'const' and isinstance(a[1], str):
                            ent['type_names'].add(a[1])
                elif 'Name' in aty:
                    ent['named'] = True
    return b, out
