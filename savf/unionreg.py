"""Union lookup registrations extracted from PerTypeLookup::new (kind -> keys/priorities, type names, named)."""
from .lib import *
from .core import Inconclusive

LOOKUP_NEW = 'schema::union_variants_per_type_lookup::PerTypeLookup::new'
KEY_ADT = 'schema::union_variants_per_type_lookup::UnionVariantLookupKey'


def key_tables(facts):
    """Constant capability tables: constants whose initialiser is an array of (lookup key, priority) tuples.
    Read from the constant's own MIR (promoted array aggregate); name-independent."""
    out = {}
    for x in facts.j['bodies']:
        if x.get('kind') != 'const' and x['id'] not in facts.consts:
            continue
        table = {}
        shape_ok = False
        for blocks in x.get('promoted') or []:
            loc = {}
            for bl in blocks:
                for st in bl.get('stmts', []):
                    rv = st.get('rv') or {}
                    l = (st.get('assign') or {}).get('l')
                    if rv.get('k') != 'agg' or l is None:
                        continue
                    if rv.get('agg') == 'adt' and rv.get('adt') == KEY_ADT:
                        loc[l] = ('key', rv.get('variant'))
                    elif rv.get('agg') == 'tuple' and len(rv.get('ops', [])) == 2:
                        a, c = rv['ops']
                        src = (a.get('move') or a.get('copy') or {}).get('l')
                        pr = ((c.get('const') or {}).get('val') or {}).get('int')
                        if src in loc and loc[src][0] == 'key':
                            loc[l] = ('pair', loc[src][1], pr)
                    elif rv.get('agg') == 'array':
                        shape_ok = True
                        for o in rv.get('ops', []):
                            src = (o.get('move') or o.get('copy') or {}).get('l')
                            if src in loc and loc[src][0] == 'pair':
                                k, pr = loc[src][1], loc[src][2]
                                table[k] = pr if table.get(k, pr) == pr else None
                            else:
                                shape_ok = False
        if table and shape_ok:
            out[x['id']] = table
    return out


def _named_consts(x, acc):
    if isinstance(x, dict):
        c = x.get('const')
        if isinstance(c, dict) and c.get('named'):
            acc.add(c['named'])
        for v in x.values():
            _named_consts(v, acc)
    elif isinstance(x, list):
        for v in x:
            _named_consts(v, acc)


def registrations(facts):
    tables = key_tables(facts)
    b = None
    for x in facts.body_list:
        if fn_label(x) == LOOKUP_NEW:
            b = x
    if b is None:
        raise Inconclusive('anchor PerTypeLookup::new not found')
    regs = enum_regions(b, SCHEMA_NODE)
    out = {}
    for r in regs:
        for kind in r.variants:
            ent = out.setdefault(kind, {'keys': {}, 'type_names': set(), 'named': False, 'loc': None})
        for bb in sorted(r.blocks):
            t = b.term(bb)
            if tables and not b.is_cleanup(bb):
                # data-driven registration: a constant (key, priority) table handed over in this kind's arm
                named = set()
                _named_consts(b.blocks[bb], named)
                for nm in named & set(tables):
                    for kind in r.variants:
                        out[kind]['loc'] = out[kind]['loc'] or t.get('span')
                        for k, pr in tables[nm].items():
                            out[kind]['keys'][k] = pr
            if t['k'] != 'call' or b.is_cleanup(bb):
                continue
            res = t.get('resolved') or ''
            if '{closure#' not in res or len(t.get('arg_tys', [])) < 2:
                continue
            aty = t['arg_tys'][1]
            o = origin(b, t['args'][1])
            for kind in r.variants:
                ent = out[kind]
                ent['loc'] = t.get('span')
                if KEY_ADT.rsplit('::', 1)[1] in aty:
                    keys = [a[2] for a in o.atoms if a[0] == 'agg' and a[1] == KEY_ADT]
                    prios = [a[1] for a in o.atoms if a[0] == 'const' and isinstance(a[1], int)]
                    for k in keys:
                        ent['keys'][k] = prios[0] if len(prios) == 1 else None
                elif '&str' in aty or "&'static str" in aty:
                    for a in o.atoms:
                        if a[0] == 'const' and isinstance(a[1], str):
                            ent['type_names'].add(a[1])
                elif 'Name' in aty:
                    ent['named'] = True
    return b, out
