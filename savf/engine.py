"""Rule engine: obligations, fact extraction orchestration, evidence, known findings."""
import fcntl, glob, hashlib, importlib, json, os, subprocess, sys, time, shutil

from .core import Facts, Inconclusive, short_loc

VERIF = os.path.dirname(os.path.dirname(os.path.abspath(__file__)))
WORK = os.path.join(VERIF, '.work')
CONFIGS = {
    'all': ['--all-features'],
    'default': [],
    'none': ['--no-default-features'],
    'deflate': ['--no-default-features', '--features', 'serde_avro_fast/deflate'],
    'bzip2': ['--no-default-features', '--features', 'serde_avro_fast/bzip2'],
    'snappy': ['--no-default-features', '--features', 'serde_avro_fast/snappy'],
    'xz': ['--no-default-features', '--features', 'serde_avro_fast/xz'],
    'zstandard': ['--no-default-features', '--features', 'serde_avro_fast/zstandard'],
}
CRATES = ['serde_avro_fast', 'serde_avro_derive', 'serde_avro_derive_macros']


def tree_hash(repo):
    h = hashlib.sha256()
    paths = []
    for root, dirs, files in os.walk(repo):
        dirs[:] = [d for d in dirs if d not in ('target', '.git')]
        for f in files:
            if f.endswith('.rs') or f.startswith('Cargo.') or f == 'rust-toolchain.toml':
                paths.append(os.path.join(root, f))
    for p in sorted(paths):
        h.update(os.path.relpath(p, repo).encode())
        h.update(b'\0')
        with open(p, 'rb') as fh:
            h.update(fh.read())
        h.update(b'\0')
    # the extractor itself is part of the key
    for extra in (os.path.join(VERIF, 'driver', 'src', 'main.rs'), os.path.join(VERIF, 'corpus', 'src', 'lib.rs')):
        with open(extra, 'rb') as fh:
            h.update(fh.read())
    return h.hexdigest()[:16]


def ensure_driver():
    drv = os.path.join(VERIF, 'driver', 'target', 'debug', 'factgen')
    src = os.path.join(VERIF, 'driver', 'src', 'main.rs')
    if os.path.exists(drv) and os.path.getmtime(drv) >= os.path.getmtime(src) \
            and os.path.getmtime(drv) >= os.path.getmtime(os.path.join(VERIF, 'driver', 'src', 'json.rs')):
        return drv
    r = subprocess.run(['cargo', 'build', '--offline'], cwd=os.path.join(VERIF, 'driver'),
                       stdout=subprocess.PIPE, stderr=subprocess.STDOUT, text=True,
                       env=dict(os.environ, CARGO_NET_OFFLINE='true'))
    if r.returncode != 0 or not os.path.exists(drv):
        raise Inconclusive('fact extractor does not build: ' + r.stdout[-2000:])
    return drv


def extract(repo, config, log=None):
    """Return directory holding <crate>.json for (repo tree, config); extract if needed."""
    os.makedirs(WORK, exist_ok=True)
    th = tree_hash(repo)
    out = os.path.join(WORK, 'facts', th, config)
    tgt_name = os.environ.get('SAVF_TARGET', 'target')
    lock = open(os.path.join(WORK, 'extract-%s.lock' % tgt_name), 'w')
    fcntl.flock(lock, fcntl.LOCK_EX)
    try:
        ok = all(os.path.exists(os.path.join(out, c + '.json')) for c in CRATES) and os.path.exists(os.path.join(out, 'DONE'))
        if ok:
            try:
                os.utime(os.path.join(WORK, 'facts', th), None)   # in use: keep it out of a concurrent run's GC
            except OSError:
                pass
            return out, th, False
        ensure_driver()
        tgt = os.path.join(WORK, tgt_name)
        t0 = time.time()
        r = subprocess.run([os.path.join(VERIF, 'savf', 'extract.sh'), repo, out, tgt] + CONFIGS[config],
                           stdout=subprocess.PIPE, stderr=subprocess.STDOUT, text=True)
        if r.returncode != 0:
            raise Inconclusive('build of %s failed under config %s:\n%s' % (repo, config, r.stdout[-3000:]))
        for c in CRATES:
            if not os.path.exists(os.path.join(out, c + '.json')):
                raise Inconclusive('fact file for %s missing after build (config %s)' % (c, config))
        with open(os.path.join(out, 'DONE'), 'w') as f:
            f.write('%.1f\n' % (time.time() - t0))
        _gc_facts(keep=th)
        return out, th, True
    finally:
        fcntl.flock(lock, fcntl.LOCK_UN)
        lock.close()


def extract_corpus(repo):
    """Facts of /verif/corpus (one type per supported derive shape) compiled against the derive crates of `repo`.
    Only the corpus crate goes through the extractor; nothing is executed."""
    os.makedirs(WORK, exist_ok=True)
    th = tree_hash(repo)
    out = os.path.join(WORK, 'facts', th, 'corpus')
    fact = os.path.join(out, 'savf_corpus.json')
    tgt_name = os.environ.get('SAVF_TARGET', 'target')
    lock = open(os.path.join(WORK, 'extract-%s.lock' % tgt_name), 'w')
    fcntl.flock(lock, fcntl.LOCK_EX)
    try:
        if os.path.exists(fact) and os.path.exists(os.path.join(out, 'DONE')):
            try:
                os.utime(os.path.join(WORK, 'facts', th), None)
            except OSError:
                pass
            return fact
        ensure_driver()
        bdir = os.path.join(WORK, 'corpus-build', tgt_name)
        shutil.rmtree(bdir, ignore_errors=True)
        os.makedirs(os.path.join(bdir, 'src'))
        cdir = os.path.join(VERIF, 'corpus')
        shutil.copy(os.path.join(cdir, 'src', 'lib.rs'), os.path.join(bdir, 'src', 'lib.rs'))
        shutil.copy(os.path.join(cdir, 'rust-toolchain.toml'), bdir)
        shutil.copy(os.path.join(repo, 'Cargo.lock'), os.path.join(bdir, 'Cargo.lock'))
        with open(os.path.join(cdir, 'Cargo.toml.in')) as fh:
            tmpl = fh.read()
        with open(os.path.join(bdir, 'Cargo.toml'), 'w') as fh:
            fh.write(tmpl.replace('@REPO@', os.path.abspath(repo)))
        os.makedirs(out, exist_ok=True)
        if os.path.exists(fact):
            os.remove(fact)
        tgt = os.path.join(WORK, tgt_name + '-corpus')
        for d in glob.glob(os.path.join(tgt, 'debug', '.fingerprint', 'savf_corpus-*')):
            shutil.rmtree(d, ignore_errors=True)
        sysroot = subprocess.run(['rustc', '+nightly', '--print', 'sysroot'], stdout=subprocess.PIPE, text=True).stdout.strip()
        env = dict(os.environ, CARGO_NET_OFFLINE='true', LD_LIBRARY_PATH=os.path.join(sysroot, 'lib'),
                   RUSTFLAGS='-Zmir-opt-level=0 -Awarnings', SAVF_OUT=out, CARGO_TARGET_DIR=tgt,
                   RUSTC_WORKSPACE_WRAPPER=os.path.join(VERIF, 'driver', 'target', 'debug', 'factgen'))
        r = subprocess.run(['cargo', '+nightly', 'check', '--offline'], cwd=bdir, stdout=subprocess.PIPE,
                           stderr=subprocess.STDOUT, text=True, env=env)
        shutil.rmtree(bdir, ignore_errors=True)
        if r.returncode != 0:
            raise Inconclusive('the derive corpus does not build against %s:\n%s' % (repo, r.stdout[-3000:]))
        if not os.path.exists(fact):
            raise Inconclusive('fact file for the derive corpus missing after build')
        with open(os.path.join(out, 'DONE'), 'w') as f:
            f.write('ok\n')
        return fact
    finally:
        fcntl.flock(lock, fcntl.LOCK_UN)
        lock.close()


def _gc_facts(keep):
    """drop fact directories of other trees that are older than an hour (beyond the 40 most recent):
    concurrent runs on scratch copies must not lose their facts"""
    base = os.path.join(WORK, 'facts')
    now = time.time()
    try:
        ents = [(os.path.getmtime(os.path.join(base, d)), d) for d in os.listdir(base) if d != keep]
    except OSError:
        return
    ents.sort()
    for mt, d in ents[:-40]:
        if now - mt > 3600:
            shutil.rmtree(os.path.join(base, d), ignore_errors=True)


class Ob:
    __slots__ = ('rule', 'key', 'ok', 'loc', 'detail', 'nontrivial', 'config', 'verdict')

    def __init__(self, rule, key, ok, loc, detail, nontrivial=True, config='all'):
        self.rule = rule
        self.key = key
        self.ok = ok
        self.loc = loc
        self.detail = detail
        self.nontrivial = nontrivial
        self.config = config
        self.verdict = 'discharged' if ok else 'violated'

    def to_json(self):
        return {'rule': self.rule, 'key': self.key, 'verdict': self.verdict, 'loc': self.loc,
                'detail': self.detail, 'config': self.config}


class Ctx:
    """Everything a rule module sees."""

    def __init__(self, prop, repo, tier, config, facts_dir):
        self.prop = prop
        self.repo = repo
        self.tier = tier
        self.config = config
        self.facts_dir = facts_dir
        self._facts = {}
        self.obs = []
        self.counts = {}
        self.analysed = {'functions': set(), 'call_sites': 0}

    def facts(self, crate='serde_avro_fast'):
        if crate not in self._facts:
            p = os.path.join(self.facts_dir, crate + '.json')
            if not os.path.exists(p):
                raise Inconclusive('missing fact file ' + p)
            self._facts[crate] = Facts(p)
        return self._facts[crate]

    @property
    def f(self):
        return self.facts('serde_avro_fast')

    def corpus(self):
        if 'savf_corpus' not in self._facts:
            self._facts['savf_corpus'] = Facts(extract_corpus(self.repo))
        return self._facts['savf_corpus']

    def has_feature(self, feat):
        return feat in self.f.features

    def src(self, rel):
        """Source text of a file of the analysed tree (used only for messages / cargo metadata style checks)."""
        with open(os.path.join(self.repo, rel)) as fh:
            return fh.read()

    # -- obligations
    def ob(self, rule, key, ok, loc=None, detail='', nontrivial=True):
        if isinstance(loc, dict):
            loc = short_loc(loc)
        o = Ob(rule, '%s/%s/%s' % (self.prop, rule, key), bool(ok), loc, detail, nontrivial, self.config)
        self.obs.append(o)
        return o.ok

    def floor(self, rule, what, actual, floor):
        """instance-count floor: a rule that matches (almost) nothing must not pass vacuously"""
        # the floor guards against a rule that silently matches (almost) nothing; it is set at 60 %% of the count confirmed
        # on the reviewed tree so that merging a few arms / call sites in a refactor does not trip it
        eff = max(1, (floor * 3) // 5) if floor > 1 else floor
        self.counts['%s:%s' % (rule, what)] = {'actual': actual, 'floor': eff, 'reviewed_count': floor}
        return self.ob(rule, 'floor:' + what, actual >= eff, None,
                       'rule %s matched %d instance(s) of %s; the reviewed tree has %d, the floor is %d'
                       % (rule, actual, what, floor, eff), nontrivial=False)

    def touched(self, body, calls=0):
        self.analysed['functions'].add(body.id if hasattr(body, 'id') else str(body))
        self.analysed['call_sites'] += calls


def load_known():
    p = os.path.join(VERIF, 'known_findings.json')
    if not os.path.exists(p):
        return {'known': [], 'fixed': []}
    with open(p) as f:
        return json.load(f)


def run_property(prop, repo, tier, seed, configs, replay=None, quiet=False, write_evidence=True):
    """Returns (exit_code, obligations).  Prints report lines."""
    t0 = time.time()
    mod = importlib.import_module('savf.rules.' + prop.lower())
    all_obs = []
    counts = {}
    analysed_fns = set()
    call_sites = 0
    extracted = []
    try:
        for cfg in configs:
            fd, th, fresh = extract(repo, cfg)
            extracted.append({'config': cfg, 'tree': th, 'fresh_extraction': fresh})
            ctx = Ctx(prop, repo, tier, cfg, fd)
            try:
                mod.run(ctx)
            except Inconclusive:
                raise
            except Exception as e:   # noqa: a rule met code it was not written for: fail closed, and say where
                import traceback
                tb = traceback.extract_tb(e.__traceback__)
                where = ' <- '.join('%s:%d %s' % (os.path.basename(fr.filename), fr.lineno, fr.name) for fr in reversed(tb[-3:]))
                ctx.ob('ENGINE', 'rule-error', False, None,
                       'a rule of %s could not analyse this tree (%s: %s at %s): the code no longer has the shape the rule was written for; '
                       'reported as a violation (fail closed) - the obligations examined before the error are kept' % (prop, type(e).__name__, str(e)[:120], where))
            # under non-primary configs only keep violations + count (same keys discharge again)
            for o in ctx.obs:
                all_obs.append(o)
            if cfg == configs[0]:
                counts = ctx.counts
            analysed_fns |= ctx.analysed['functions']
            call_sites += ctx.analysed['call_sites']
        extra = {}
        if tier == 'thorough' and hasattr(mod, 'thorough'):
            ctx = Ctx(prop, repo, tier, 'thorough-extra', None)
            extra = mod.thorough(ctx, repo) or {}
            all_obs.extend(ctx.obs)
        if tier == 'thorough' and os.path.abspath(repo) == '/repo' and not os.environ.get('SAVF_NO_SELFTEST'):
            # checker self-test (both directions) on scratch copies: reported in the evidence, never as a violation of /repo
            from . import selftest as st
            res = st.selftest(prop)
            extra = dict(extra, selftest=res)
            if res['missed'] or res['benign_alarms']:
                print('SELFTEST-NOTE property=%s missed=%s benign_alarms=%s' % (prop, res['missed'], res['benign_alarms']))
    except Inconclusive as e:
        print('INCONCLUSIVE property=%s reason=%s' % (prop, str(e).replace('\n', ' | ')[:1500]))
        if write_evidence:
            _write_evidence(prop, tier, seed, [], {}, set(), 0, [], time.time() - t0, 0, str(e), {})
        return 2, []

    if replay:
        with open(replay) as f:
            want = {o['key'] for o in json.load(f)['obligations']}
        all_obs = [o for o in all_obs if o.key in want]

    known = load_known()
    known_keys = {k['key']: k for k in known.get('known', []) if k.get('property') == prop}
    violated = []
    seen_known = {}
    for o in all_obs:
        if not o.ok:
            if o.key in known_keys:
                o.verdict = 'known'
                seen_known[o.key] = known_keys[o.key]
            else:
                violated.append(o)
    for k, ent in seen_known.items():
        print('KNOWN-FINDING: property=%s %s [%s]' % (prop, ent.get('what', ''), k))
    code = 0
    if violated:
        code = 1
        rp_dir = os.path.join(VERIF, 'evidence', 'replay')
        os.makedirs(rp_dir, exist_ok=True)
        rp = os.path.join(rp_dir, '%s.json' % prop)
        # dedupe by key (same key under several configs)
        uniq = {}
        for o in violated:
            uniq.setdefault(o.key, o)
        with open(rp, 'w') as f:
            json.dump({'property': prop, 'repo': repo, 'obligations': [o.to_json() for o in uniq.values()]}, f, indent=1)
        print('VIOLATION property=%s replay=%s' % (prop, rp))
        for o in uniq.values():
            print('  rule   %s' % o.rule)
            print('  key    %s' % o.key)
            print('  site   %s' % (o.loc or '-'))
            for line in str(o.detail).split('\n'):
                print('  found  %s' % line)
            print('  config %s' % o.config)
            print()
    if write_evidence:
        _write_evidence(prop, tier, seed, all_obs, counts, analysed_fns, call_sites, extracted,
                        time.time() - t0, len({o.key for o in violated}), None, extra,
                        explanation=getattr(mod, 'EXPLANATION', ''), assumptions=getattr(mod, 'ASSUMPTIONS', []))
    if not quiet:
        nk = len(seen_known)
        print('%s: %d obligations (%d distinct keys), %d violated, %d known, %d functions analysed, %.1fs'
              % (prop, len(all_obs), len({o.key for o in all_obs}), len({o.key for o in violated}), nk,
                 len(analysed_fns), time.time() - t0))
    return code, all_obs


def _write_evidence(prop, tier, seed, obs, counts, fns, call_sites, extracted, wall, nviol, inconclusive, extra,
                    explanation='', assumptions=()):
    keys = {}
    for o in obs:
        keys.setdefault(o.key, o)
    distinct = list(keys.values())
    nontrivial = [o for o in distinct if o.nontrivial]
    discharged = [o for o in distinct if o.verdict == 'discharged']
    known = [o for o in distinct if o.verdict == 'known']
    samples = []
    byrule = {}
    for o in nontrivial:
        byrule.setdefault(o.rule, []).append(o)
    for r, lst in sorted(byrule.items()):
        for o in lst[:2]:
            samples.append(o.to_json())
    for o in distinct:
        if o.verdict != 'discharged':
            samples.append(o.to_json())
    rules = {}
    for o in distinct:
        d = rules.setdefault(o.rule, {'obligations': 0, 'discharged': 0, 'known': 0, 'violated': 0})
        d['obligations'] += 1
        d[o.verdict] += 1
    cov = {
        'explanation': explanation or ('static structural analysis of /repo (MIR/HIR facts); see DESIGN.md'),
        'rule': 'one obligation per (rule, site) found in the MIR/HIR of the current tree; non-trivial = needed a '
                'path, provenance, dominance or table decision (instance-count floors and mere presence tests are trivial)',
        'evaluations': len(obs),
        'distinct_nontrivial': len(nontrivial),
        'obligations': len(distinct),
        'discharged': len(discharged),
        'known_findings': len(known),
        'violated': nviol,
        'rules': rules,
        'instance_floors': counts,
        'functions_analysed': len(fns),
        'functions': sorted(fns)[:400],
        'call_sites_examined': call_sites,
        'configurations': extracted,
        'samples': samples[:60],
        'exhaustive': False,
        'checker_cmd': './check %s --tier %s' % (prop, tier),
        'trusted_base': ['rustc type checker, MIR construction and Instance::try_resolve (nightly)',
                         'driver/ fact extractor', 'savf/ analysis core',
                         'spec tables transcribed in savf/rules (Avro 1.11)'],
    }
    cov.update(extra or {})
    if inconclusive:
        cov['inconclusive'] = inconclusive
    ev = {
        'property_id': prop, 'tier': tier, 'seed': seed, 'level': 'other', 'coverage': cov,
        'assumptions': list(assumptions) or ['dependencies (std, serde, integer-encoding, rust_decimal, codec crates) behave as documented'],
        'wall_s': round(wall, 2), 'violations': nviol,
    }
    os.makedirs(os.path.join(VERIF, 'evidence'), exist_ok=True)
    p = os.path.join(VERIF, 'evidence', prop + '.json')
    with open(p + '.tmp', 'w') as f:
        json.dump(ev, f, indent=1)
    os.replace(p + '.tmp', p)
