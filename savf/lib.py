"""Shared analyses used by the rule modules: regions, provenance, guards, path queries."""
from collections import namedtuple
from .core import op_place, op_const, const_int, const_str, const_bytes, place_str, op_str, short_loc, Inconclusive

SCHEMA_NODE = 'schema::self_referential::SchemaNode'
SAFE_TYPE = 'schema::safe::RegularType'

Region = namedtuple('Region', 'body switch_bb variants entry blocks place span')


def enum_regions(body, adt, place_filter=None):
    """One Region per distinct target of every switch on discriminant(adt) in `body`."""
    out = []
    for si in body.switches_on_adt(adt):
        if place_filter and not place_filter(si['place']):
            continue
        by_target = {}
        for v, tb in si['variants'].items():
            by_target.setdefault(tb, []).append(v)
        ow = si['otherwise']
        if si.get('otherwise_variants'):
            # `otherwise` may be an unreachable block when the match is exhaustive
            if body.term(ow)['k'] != 'unreachable':
                by_target.setdefault(ow, []).extend(si['otherwise_variants'])
        regs = [(tb, vs, set(body.dominated_by(tb))) for tb, vs in by_target.items()]
        # a target that is also reachable from elsewhere (joined) is dominated by itself only
        # Arms that converge: `Decimal => Some(Regular(d)), BigDecimal => Some(Big)` followed by one `Some(mode) => read(mode)`
        # (a classifier spliced into its caller) is the or-pattern arm `Decimal | BigDecimal => read(..)` in two steps.  A
        # join below the switch all of whose predecessors lie in the regions of some, but not all, of the arms belongs to
        # each of those arms; the join of all arms is the code after the match and stays with the enclosing function.
        if len(regs) >= 3:
            below = set(body.dominated_by(si['bb'])) - {si['bb']}
            live = set(body.live_blocks())
            changed = True
            while changed:
                changed = False
                owned = set().union(*[r[2] for r in regs])
                for J in sorted(below - owned):
                    if body.is_cleanup(J):
                        continue
                    preds = [p for p in body.preds(J) if not body.is_cleanup(p) and p in live]
                    # (only a join made by value threading - each arm arrives knowing which way the second switch goes -
                    # is a second step of the dispatch; an ordinary join of the arms that go on is the code after the match)
                    if len(preds) < 2 or not all(p in owned and body.term(p).get('threaded_value') for p in preds):
                        continue
                    owners = [r for r in regs if any(p in r[2] for p in preds)]
                    if 2 <= len(owners) < len(regs):
                        dj = set(body.dominated_by(J))
                        for r in owners:
                            r[2].update(dj)
                        changed = True
                        break
        for tb, vs, blocks in regs:
            out.append(Region(body, si['bb'], frozenset(vs), tb, blocks, si['place'], si.get('span')))
    return out


def closures_built_in(body, blocks):
    """closure def paths constructed by aggregate statements in `blocks` -> (bb, closure id, captured operands)"""
    out = []
    for bb in sorted(blocks):
        for s in body.stmts(bb):
            if 'assign' in s and s['rv']['k'] == 'agg' and s['rv'].get('agg') == 'closure':
                out.append((bb, s['rv']['closure'], s['rv']['ops'], s['assign']))
    return out


def calls_in(body, blocks, facts=None, into_closures=True, _depth=0, _seen=None):
    """(body, bb, term) for every call in blocks, descending into closures constructed there."""
    out = []
    _seen = _seen if _seen is not None else set()
    for bb in sorted(blocks):
        t = body.term(bb)
        if t['k'] in ('call', 'tailcall') and not body.is_cleanup(bb):
            out.append((body, bb, t))
    if into_closures and _depth < 4:
        facts = facts or body.facts
        for bb, cid, ops, _dst in closures_built_in(body, blocks):
            if cid in _seen:
                continue
            _seen.add(cid)
            cb = facts.bodies.get(cid)
            if cb is not None:
                out.extend(calls_in(cb, cb.live_blocks(), facts, True, _depth + 1, _seen))
    return out


def cname(t):
    """canonical callee name: resolved impl method when known, else the declared callee"""
    return t.get('resolved') or t.get('callee') or ''


def call_matches(t, suffixes):
    c = t.get('callee') or ''
    r = t.get('resolved') or ''
    for s in suffixes:
        if c.endswith(s) or r.endswith(s):
            return True
    return False


# ---------------------------------------------------------------------------
# provenance

# callee suffix -> (index of the argument the result derives from, flag recorded)
TRANSPARENT = [
    ('ops::try_trait::Try>::branch', 0, 'try'),
    ('ops::try_trait::Try::branch', 0, 'try'),
    ('result::Result::<T, E>::map_err', 0, 'map_err'),
    ('option::Option::<T>::ok_or_else', 0, 'ok_or'),
    ('option::Option::<T>::ok_or', 0, 'ok_or'),
    ('option::Option::<&T>::copied', 0, 'copied'),
    ('option::Option::<&T>::cloned', 0, 'copied'),
    ('ops::deref::Deref::deref', 0, 'deref'),
    ('ops::deref::DerefMut::deref_mut', 0, 'deref'),
    ('ops::deref::Deref>::deref', 0, 'deref'),
    ('ops::deref::DerefMut>::deref_mut', 0, 'deref'),
    ('clone::Clone::clone', 0, 'clone'),
    ('clone::Clone>::clone', 0, 'clone'),
    ('convert::AsRef::as_ref', 0, 'as_ref'),
    ('convert::AsRef<[T]>>::as_ref', 0, 'as_ref'),
    ('convert::AsMut::as_mut', 0, 'as_ref'),
    ('borrow::Borrow::borrow', 0, 'as_ref'),
    ('convert::TryInto::try_into', 0, 'try_into'),
    ('convert::TryInto<U>>::try_into', 0, 'try_into'),
    ('convert::TryFrom::try_from', 0, 'try_into'),
    ('convert::Into::into', 0, 'into'),
    ('convert::Into<U>>::into', 0, 'into'),
    ('convert::From::from', 0, 'into'),
    ('num::nonzero::NonZero::<T>::get', 0, 'nz_get'),
    ('str::<impl str>::as_bytes', 0, 'as_bytes'),
    ('string::String::as_bytes', 0, 'as_bytes'),
    ('string::String::as_str', 0, 'as_ref'),
    ('vec::Vec::<T, A>::as_slice', 0, 'as_ref'),
    ('vec::Vec::<T, A>::as_mut_slice', 0, 'as_ref'),
    ('result::Result::<T, E>::unwrap', 0, 'unwrap'),
    ('result::Result::<T, E>::expect', 0, 'unwrap'),
    ('option::Option::<T>::unwrap', 0, 'unwrap'),
    ('option::Option::<T>::expect', 0, 'unwrap'),
    ('option::Option::<T>::unwrap_or', 0, 'unwrap_or'),
    ('option::Option::<T>::unwrap_or_else', 0, 'unwrap_or'),
    ('option::Option::<T>::unwrap_or_default', 0, 'unwrap_or'),
    ('result::Result::<T, E>::unwrap_or', 0, 'unwrap_or'),
    ("self_referential::NodeRef::<'a, N>::as_ref", 0, 'as_ref'),
    ("slice::iter::Iter::<'a, T>::as_slice", 0, 'as_ref'),
    ('core::mem::take', 0, 'take'),
    ('mem::take', 0, 'take'),
    ('ops::index::Index::index', 0, 'index'),
    ('ops::index::IndexMut::index_mut', 0, 'index'),
    ('ops::index::Index<I>>::index', 0, 'index'),
    ('ops::index::IndexMut<I>>::index_mut', 0, 'index'),
    ('cell::Cell::<T>::get', 0, 'cell'),
    ('cell::Cell::<T>::replace', 0, 'cell'),
    ('option::Option::<T>::as_mut', 0, 'as_ref'),
    ('option::Option::<T>::as_ref', 0, 'as_ref'),
    ('option::Option::<T>::filter', 0, 'filter'),
    ('option::Option::<T>::map', 0, 'map'),
    ('result::Result::<T, E>::map', 0, 'map'),
    ('::from_le_bytes', 0, 'from_le'),
    ('::from_be_bytes', 0, 'from_be'),
    ('::from_ne_bytes', 0, 'from_ne'),
    ('::to_le_bytes', 0, 'to_le'),
    ('::to_be_bytes', 0, 'to_be'),
    ('::to_ne_bytes', 0, 'to_ne'),
    ('slice::<impl [T]>::is_empty', 0, 'is_empty'),
    ('vec::Vec::<T, A>::is_empty', 0, 'is_empty'),
    ('str::<impl str>::is_empty', 0, 'is_empty'),
    ('slice::<impl [T]>::len', 0, 'len'),
    ('str::<impl str>::len', 0, 'len'),
    ('vec::Vec::<T, A>::len', 0, 'len'),
    ('string::String::len', 0, 'len'),
    ('collections::hash::map::HashMap::<K, V, S, A>::get', 0, 'get'),
    ('slice::<impl [T]>::get', 0, 'get'),
    ('slice::<impl [T]>::get_mut', 0, 'get'),
    ('slice::<impl [T]>::first', 0, 'get'),
    ('slice::<impl [T]>::iter', 0, 'iter'),
    ('iter::traits::iterator::Iterator::enumerate', 0, 'enumerate'),
    ('iter::traits::collect::IntoIterator>::into_iter', 0, 'iter'),
    ('iter::traits::collect::IntoIterator::into_iter', 0, 'iter'),
]


def transparent(t):
    c = t.get('callee') or ''
    r = t.get('resolved') or ''
    for suf, idx, flag in TRANSPARENT:
        if c.endswith(suf) or r.endswith(suf):
            return idx, flag
    return None


class Origin:
    """Result of a provenance query: leaf atoms + what the value passed through."""

    def __init__(self):
        self.atoms = set()    # ('const', repr) | ('param', n) | ('call', name, body_id, bb) | ('upvar', i) | ('agg', adt, variant) | ('discr',) | ('unknown', why)
        self.flags = set()    # 'arith:<op>', 'cast:<kind>:<from>-><to>', 'try_into', 'field:<name>', 'index', ...
        self.fields = set()   # field names projected on the way
        self.calls = []       # call terms passed through (transparent ones included)

    def call_names(self):
        return {a[1] for a in self.atoms if a[0] == 'call'}

    def params(self):
        return {a[1] for a in self.atoms if a[0] == 'param'}

    def consts(self):
        return {a[1] for a in self.atoms if a[0] == 'const'}

    def only_from_calls(self, suffixes):
        """every non-const atom is a call result of one of `suffixes`"""
        ok = True
        for a in self.atoms:
            if a[0] == 'call':
                if not any(a[1].endswith(s) for s in suffixes):
                    ok = False
            elif a[0] != 'const':
                ok = False
        return ok

    def has_arith(self):
        return any(f.startswith('arith:') for f in self.flags)

    def describe(self):
        parts = []
        for a in sorted(self.atoms, key=str):
            if a[0] == 'call':
                parts.append('call %s' % a[1])
            elif a[0] == 'param':
                parts.append('param _%d' % a[1])
            else:
                parts.append(' '.join(str(x) for x in a))
        s = '{' + '; '.join(parts) + '}'
        fl = sorted(f for f in self.flags)
        if fl:
            s += ' via ' + ','.join(fl)
        return s


def origin(body, op, through_calls=True, max_nodes=400, _depth=0):
    """Backward def-use closure of an operand (flow-insensitive per local, field-aware for aggregates)."""
    res = Origin()
    seen = set()
    work = []

    def push_op(o, want_field=None):
        if o is None:
            return
        c = op_const(o)
        if c is not None:
            if 'promoted' in c:
                pr = body.j.get('promoted', [])
                i = c['promoted']
                found = False
                if i < len(pr):
                    for blk in pr[i]:
                        for st in blk['stmts']:
                            if 'assign' in st and st['rv']['k'] == 'agg':
                                rv = st['rv']
                                found = True
                                if rv.get('agg') == 'adt':
                                    res.atoms.add(('agg', rv['adt'], rv['variant']))
                                    res.flags.add('promoted')
                                    for oo in rv['ops']:
                                        cc = op_const(oo)
                                        if cc and 'val' in cc and 'int' in cc['val']:
                                            res.atoms.add(('const', cc['val']['int']))
                                elif rv.get('agg') == 'array':
                                    res.flags.add('array:%d' % len(rv['ops']))
                                    res.flags.add('promoted')
                                    for oo in rv['ops']:
                                        cc = op_const(oo)
                                        if cc and 'val' in cc and 'int' in cc['val']:
                                            res.atoms.add(('const', cc['val']['int']))
                            elif 'assign' in st and st['rv']['k'] == 'use' and op_const(st['rv']['op']):
                                cc = op_const(st['rv']['op'])
                                v = cc.get('val', {})
                                if 'int' in v:
                                    res.atoms.add(('const', v['int'])); found = True
                                elif 'str' in v:
                                    res.atoms.add(('const', v['str'])); found = True
                                else:
                                    for k in ('bytes', 'ptr_bytes', 'mem'):
                                        if k in v:
                                            res.atoms.add(('const', 'bytes ' + v[k])); found = True
                if not found:
                    res.atoms.add(('const', 'promoted'))
                return
            if 'fn' in c:
                res.atoms.add(('const', 'fn ' + c['fn']))
            else:
                v = c.get('val', {})
                if 'int' in v:
                    res.atoms.add(('const', v['int']))
                elif 'str' in v:
                    res.atoms.add(('const', v['str']))
                elif 'named' in c:
                    res.atoms.add(('const', 'named ' + c['named']))
                else:
                    b = None
                    for k in ('bytes', 'ptr_bytes', 'mem'):
                        if k in v:
                            b = v[k]
                    res.atoms.add(('const', ('bytes ' + b) if b is not None else c.get('ty', '?')))
            return
        p = op_place(o)
        if p is not None:
            push_place(p)
        else:
            res.atoms.add(('unknown', 'runtime'))

    def push_place(p):
        proj = p.get('p', [])
        key = (p['l'], tuple(_pk(e) for e in proj))
        if key in seen:
            return
        seen.add(key)
        work.append((p['l'], proj))

    def _pk(e):
        if e == '*':
            return '*'
        if isinstance(e, dict):
            if 'f' in e or 'i' in e:
                return ('f', e.get('i'))
            if 'as' in e:
                return ('as', e['as'])
            if 'idx' in e:
                return ('idx',)
            if 'cidx' in e:
                return ('cidx', e['cidx'])
            if 'sub' in e:
                return ('sub',)
        return '?'

    push_op(op) if ('copy' in op or 'move' in op or 'const' in op) else push_place(op)
    n = 0
    while work:
        n += 1
        if n > max_nodes:
            res.atoms.add(('unknown', 'budget'))
            break
        l, proj = work.pop()
        # record projections
        fproj = [e for e in proj if isinstance(e, dict) and ('f' in e or 'i' in e)]
        for e in proj:
            if isinstance(e, dict):
                if 'f' in e:
                    res.fields.add(e['f'])
                if 'idx' in e or 'cidx' in e:
                    res.flags.add('index')
                if 'sub' in e:
                    res.flags.add('subslice')
        if 1 <= l <= body.nargs:
            if body.j['kind'] == 'closure' and l == 1:
                # closure environment: upvar index = first field projection; resolve it in the parent body
                idx = None
                for e in proj:
                    if isinstance(e, dict) and 'i' in e:
                        idx = e['i']
                        break
                resolved = False
                if idx is not None and _depth < 3:
                    parent_id = body.id.rsplit('::{closure#', 1)[0]
                    parent = body.facts.bodies.get(parent_id)
                    if parent is not None:
                        for pbb in sorted(parent.live_blocks()):
                            for st in parent.stmts(pbb):
                                if 'assign' in st and st['rv']['k'] == 'agg' and st['rv'].get('agg') == 'closure' \
                                        and st['rv']['closure'] == body.id and idx < len(st['rv']['ops']):
                                    po = origin(parent, st['rv']['ops'][idx], through_calls, max_nodes, _depth + 1)
                                    res.atoms |= po.atoms
                                    res.flags |= po.flags | {'upvar'}
                                    res.fields |= po.fields
                                    res.calls += po.calls
                                    resolved = True
                if not resolved:
                    res.atoms.add(('upvar', idx))
            else:
                res.atoms.add(('param', l))
            continue
        defs = body.defs().get(l, [])
        if not defs:
            if l == 0:
                res.atoms.add(('unknown', 'return place'))
            else:
                res.atoms.add(('unknown', 'no def of _%d' % l))
            continue
        # first field projection wanted (after leading derefs / downcasts)
        first_field = None
        for e in proj:
            if e == '*':
                continue
            if isinstance(e, dict) and 'as' in e:
                continue
            if isinstance(e, dict) and 'i' in e:
                first_field = e['i']
            break
        # what is asked of the selected member, after the first field (x.f.REST -> REST); leading derefs / downcasts skipped
        rest_proj = None
        for i_, e in enumerate(proj):
            if e == '*' or (isinstance(e, dict) and 'as' in e):
                continue
            if isinstance(e, dict) and 'i' in e:
                rest_proj = list(proj[i_ + 1:])
            break

        def push_member(o_):
            pp_ = op_place(o_)
            if pp_ is not None and rest_proj:
                np_ = dict(pp_)
                np_['p'] = list(pp_.get('p', [])) + rest_proj
                push_place(np_)
            else:
                push_op(o_)
        for (bb, idx, kind, payload, lhs) in defs:
            if bb not in body.live_blocks() or body.is_cleanup(bb):
                continue
            lproj = lhs.get('p', [])
            if kind == 'set_discr':
                continue
            if lproj:
                # partial definition (field write): relevant only if it can overlap the wanted path
                lf = None
                for e in lproj:
                    if e == '*':
                        continue
                    if isinstance(e, dict) and 'i' in e:
                        lf = e['i']
                    break
                if first_field is not None and lf is not None and lf != first_field:
                    continue
            if kind == 'assign':
                rv = payload
                k = rv['k']
                if k == 'use':
                    o = rv['op']
                    pp = op_place(o)
                    if pp is not None and proj and not lproj:
                        # carry the projection over: (x = y; want x.f) -> y.f
                        np = dict(pp)
                        np['p'] = list(pp.get('p', [])) + list(proj)
                        push_place(np)
                    else:
                        push_op(o)
                elif k == 'ref' or k == 'rawptr':
                    pp = rv['place']
                    if proj and not lproj:
                        rest = list(proj)
                        if rest and rest[0] == '*':
                            rest = rest[1:]
                        np = dict(pp)
                        np['p'] = list(pp.get('p', [])) + rest
                        push_place(np)
                    else:
                        push_place(pp)
                elif k == 'cast':
                    ck = rv['cast']
                    if ck in ('IntToInt', 'FloatToInt', 'FloatToFloat', 'IntToFloat'):
                        res.flags.add('cast:%s:%s->%s' % (ck, rv['from'], rv['to']))
                    elif ck.startswith('Coerce'):
                        res.flags.add('coerce:%s->%s' % (rv['from'], rv['to']))
                    else:
                        res.flags.add('cast:%s:%s->%s' % (ck, rv['from'], rv['to']))
                    push_op(rv['op'])
                elif k == 'bin':
                    res.flags.add('arith:' + rv['op'])
                    push_op(rv['l'])
                    push_op(rv['r'])
                elif k == 'un':
                    res.flags.add('arith:' + rv['op'])
                    push_op(rv['a'])
                elif k == 'discr':
                    res.atoms.add(('discr', place_str(rv['place'])))
                elif k == 'agg':
                    if rv.get('agg') == 'adt':
                        if first_field is not None and not lproj and first_field < len(rv['ops']):
                            push_member(rv['ops'][first_field])
                        elif not rv['ops']:
                            res.atoms.add(('agg', rv['adt'], rv['variant']))
                        else:
                            res.atoms.add(('agg', rv['adt'], rv['variant']))
                            for o in rv['ops']:
                                push_op(o)
                    elif rv.get('agg') in ('tuple', 'array'):
                        if first_field is not None and not lproj and rv.get('agg') == 'tuple' and first_field < len(rv['ops']):
                            push_member(rv['ops'][first_field])
                        else:
                            if rv.get('agg') == 'array':
                                res.flags.add('array:%d' % len(rv['ops']))
                            for o in rv['ops']:
                                push_op(o)
                    elif rv.get('agg') == 'closure':
                        if first_field is not None and not lproj and first_field < len(rv['ops']):
                            # a captured value read out of the environment of a closure spliced into this body
                            push_member(rv['ops'][first_field])
                        else:
                            res.atoms.add(('closure', rv['closure']))
                    else:
                        for o in rv['ops']:
                            push_op(o)
                elif k == 'repeat':
                    res.flags.add('repeat:' + str(rv.get('n')))
                    push_op(rv['op'])
                else:
                    res.atoms.add(('unknown', rv.get('text', k)[:60]))
            elif kind == 'call':
                t = payload
                if proj and isinstance(proj[0], dict) and proj[0].get('as') in ('Ok', 'Continue', 'Some') and \
                        (t.get('callee') or '').endswith('FromResidual::from_residual'):
                    continue      # builds the Err / Break / None value: not where an Ok payload comes from
                res.calls.append(t)
                if proj and isinstance(proj[0], dict) and proj[0].get('as') == 'Ok' and body.term(bb).get('k') == 'call':
                    # the Ok payload read in the Ok arm of an explicit `match call() { Ok(v) => v, Err(_) => return Err(..) }`:
                    # the same checked hand-over as `call()?`
                    try:
                        te_ = try_edges(body, bb)
                        if te_ is not None and te_[1] is not None and body.term(body.term(bb).get('target')).get('k') == 'switch' and all_paths_err(body, te_[1]):
                            res.flags.add('try')
                    except (KeyError, TypeError, IndexError):
                        pass
                tr = transparent(t) if through_calls else None
                if tr is not None and tr[0] < len(t['args']):
                    res.flags.add(tr[1])
                    pa_ = op_place(t['args'][tr[0]])
                    if tr[1] == 'try' and pa_ is not None and not pa_.get('p') and proj and isinstance(proj[0], dict) and proj[0].get('as') == 'Continue':
                        # ((x?) payload).REST: the Continue payload of Try::branch(r) is the Ok payload of r
                        np_ = dict(pa_)
                        np_['p'] = [{'as': 'Ok'}] + list(proj[1:])
                        push_place(np_)
                    else:
                        push_op(t['args'][tr[0]])
                else:
                    res.atoms.add(('call', cname(t), body.id, bb))
    return res


def agg_variant_consts(body, op):
    """For an operand that is an enum built from unit variants: the set of variant names it may hold."""
    o = origin(body, op)
    return {a[2] for a in o.atoms if a[0] == 'agg'}


# ---------------------------------------------------------------------------
# guards

def dominating_switches(body, bb):
    """[(switch_bb, switch_info, taken)] for each dominating switch whose taken edge is determined:
    taken = ('val', v) | ('variant', name) | ('otherwise',)"""
    out = []
    idom = body.idom()
    x = bb
    chain = []
    while x in idom and idom[x] != x and idom[x] != body.n:
        chain.append((idom[x], x))
        x = idom[x]
    for d, child in chain:
        t = body.term(d)
        if t['k'] != 'switch':
            continue
        si = body.switch_info(d)
        # which successor of d dominates bb?
        succs = body.succs(d)
        cands = [s for s in succs if body.dominates(s, bb) and set(body.preds(s)) <= {d} | body.dominated_by(s)]
        if len(cands) != 1:
            continue
        s = cands[0]
        taken = None
        if si.get('kind') == 'enum':
            names = [v for v, tb in si['variants'].items() if tb == s]
            if names:
                taken = ('variant', tuple(names))
            elif s == si['otherwise']:
                taken = ('otherwise_variants', tuple(si.get('otherwise_variants') or ()))
        else:
            vals = [v for v, tb in si['targets'].items() if tb == s]
            if vals and s != si['otherwise']:
                taken = ('val', tuple(vals))
            elif s == si['otherwise']:
                taken = ('not', tuple(si['targets'].keys()))
        if taken:
            out.append((d, si, taken))
    return out


def switch_condition(body, si, depth=0):
    """Describe the boolean/int scrutinee of a non-enum switch:
    ('cmp', op, OriginL, OriginR) | ('call', name, term) | ('other', ...)"""
    p = op_place(si['op'])
    if p is None:
        return ('other', 'const')
    if p.get('p'):
        return ('place', p)
    defs = [d for d in body.defs().get(p['l'], []) if d[0] in body.live_blocks()]
    if len(defs) != 1:
        # choose the def in the same block if any
        same = [d for d in defs if d[0] == si['bb']]
        if len(same) == 1:
            defs = same
        else:
            return ('other', 'multi-def')
    bb, idx, kind, payload, lhs = defs[0]
    if kind == 'assign':
        rv = payload
        if rv['k'] == 'bin' and rv['op'] in ('Eq', 'Ne', 'Lt', 'Le', 'Gt', 'Ge'):
            return ('cmp', rv['op'], rv['l'], rv['r'])
        if rv['k'] == 'un' and rv['op'] == 'Not':
            inner = {'op': rv['a'], 'bb': bb}
            r = switch_condition(body, inner, depth + 1) if depth < 3 else ('other', 'deep')
            return ('not', r)
        if rv['k'] == 'use':
            inner = {'op': rv['op'], 'bb': bb}
            return switch_condition(body, inner, depth + 1) if depth < 3 else ('other', 'deep')
        return ('other', rv['k'])
    if kind == 'call':
        return ('call', cname(payload), payload)
    return ('other', kind)


# ---------------------------------------------------------------------------
# path queries

def must_pass(body, src, dst_blocks, via_blocks):
    """True iff every path from src to any block of dst_blocks passes a block of via_blocks."""
    via = set(via_blocks)
    reach = body.reachable_from(src, avoid=via)
    return not (reach & set(dst_blocks))


def blocks_calling(body, suffixes, blocks=None):
    out = []
    for bb, t in body.calls():
        if blocks is not None and bb not in blocks:
            continue
        if call_matches(t, suffixes):
            out.append(bb)
    return out


def return_locals(body):
    """{0} - and, in a body with spliced helpers, the helpers' own return places: locals whose value is moved, whole, into
    a return place (`dest = move _ret; ... _0 = move dest`).  An `Err(..)` built for a spliced helper's return place is an
    error return of the merged function on that path."""
    cached = getattr(body, '_ret_locals', None)
    if cached is not None:
        return cached
    ret = {0}
    if getattr(body, 'inlined', False):
        moves = []
        for bb in body.live_blocks():
            if body.is_cleanup(bb):
                continue
            for s in body.stmts(bb):
                if 'assign' in s and not s['assign'].get('p') and s['rv']['k'] == 'use':
                    p = op_place(s['rv']['op'])
                    if p is not None and not p.get('p') and (body.local_ty(p['l']) or '').startswith('core::result::Result<'):
                        moves.append((s['assign']['l'], p['l']))
        changed = True
        while changed:
            changed = False
            for dst, src in moves:
                if dst in ret and src not in ret:
                    ret.add(src)
                    changed = True
    body._ret_locals = ret
    return ret


def ok_return_blocks(body, blocks=None):
    """blocks that assign `_0 = Result::Ok{..}` (aggregate) -- the explicit success returns"""
    out = []
    RL = return_locals(body)
    for bb in (blocks if blocks is not None else body.live_blocks()):
        if body.is_cleanup(bb):
            continue
        for s in body.stmts(bb):
            if 'assign' in s and s['assign']['l'] in RL and not s['assign'].get('p'):
                rv = s['rv']
                if rv['k'] == 'agg' and rv.get('adt') == 'core::result::Result' and rv.get('variant') == 'Ok':
                    out.append(bb)
    return out


def err_return_blocks(body, blocks=None):
    """blocks that assign `_0 = Result::Err{..}` or `_0 = from_residual(..)` (the `?` error exit)"""
    out = []
    RL = return_locals(body)
    for bb in (blocks if blocks is not None else body.live_blocks()):
        if body.is_cleanup(bb):
            continue
        for s in body.stmts(bb):
            if 'assign' in s and s['assign']['l'] in RL and not s['assign'].get('p'):
                rv = s['rv']
                if rv['k'] == 'agg' and rv.get('adt') == 'core::result::Result' and rv.get('variant') == 'Err':
                    out.append(bb)
        t = body.term(bb)
        if t['k'] == 'call' and t['dest']['l'] in RL and not t['dest'].get('p') and call_matches(t, ['FromResidual::from_residual', 'from_residual']):
            out.append(bb)
    return out


def try_edges(body, call_bb):
    """For a call whose result is consumed by `?`: (continue_bb, break_bb) or None.
    Follows dest -> [map_err ->] Try::branch -> switch."""
    t = body.term(call_bb)
    cur = call_bb
    dest = t['dest']['l']
    for _ in range(6):
        nxt = body.term(cur).get('target')
        if nxt is None:
            return None
        tt = body.term(nxt)
        if tt['k'] == 'switch':
            # `match call() { Ok(..) => .., Err(e) => .. }` / `if let Err(e) = call() { .. }`: (Ok edge, Err edge)
            si = body.switch_info(nxt)
            if si and si.get('kind') == 'enum' and si.get('adt') == 'core::result::Result' and not si['place'].get('p') and si['place']['l'] == dest:
                okb = si['variants'].get('Ok', si['otherwise'] if 'Ok' in (si.get('otherwise_variants') or []) else None)
                erb = si['variants'].get('Err', si['otherwise'] if 'Err' in (si.get('otherwise_variants') or []) else None)
                if okb is not None and erb is not None:
                    return okb, erb
            # `let Some(x) = call() else { return Err(..) }` / `match call() { Some(..) => .., None => .. }`: (Some edge, None edge)
            if si and si.get('kind') == 'enum' and si.get('adt') == 'core::option::Option' and not si['place'].get('p') and si['place']['l'] == dest:
                okb = si['variants'].get('Some', si['otherwise'] if 'Some' in (si.get('otherwise_variants') or []) else None)
                erb = si['variants'].get('None', si['otherwise'] if 'None' in (si.get('otherwise_variants') or []) else None)
                if okb is not None and erb is not None:
                    return okb, erb
            return None
        if tt['k'] == 'goto':
            # the return block of a spliced helper: `res = move <helper's return place>; goto`: follow the value
            for s_ in body.stmts(nxt):
                if 'assign' in s_ and not s_['assign'].get('p') and s_['rv'].get('k') == 'use':
                    sp_ = op_place(s_['rv']['op'])
                    if sp_ is not None and not sp_.get('p') and sp_['l'] == dest:
                        dest = s_['assign']['l']
            cur = nxt
            continue
        if tt['k'] != 'call':
            return None
        a0 = op_place(tt['args'][0]) if tt['args'] else None
        if a0 is not None and a0['l'] != dest and strip_generics(cname(tt)).endswith(('Result::is_err', 'Result::is_ok')):
            # `let res = call(); flag = res.is_err(); res?`: a look at the result by reference on the way to the `?`
            refs = [d for d in body.defs().get(a0['l'], []) if d[2] == 'assign' and d[3].get('k') == 'ref' and not d[3]['place'].get('p') and d[3]['place']['l'] == dest]
            if refs:
                cur = nxt
                continue
        if a0 is not None and a0['l'] != dest and not a0.get('p'):
            # the result moved into a temporary first (`_t = move res; map_err(_t, ..)`)
            mv = [d for d in body.defs().get(a0['l'], []) if d[2] == 'assign' and d[3].get('k') == 'use' and op_place(d[3]['op']) and
                  not op_place(d[3]['op']).get('p') and op_place(d[3]['op'])['l'] == dest]
            if len(mv) == 1 and len(body.defs().get(a0['l'], [])) == 1:
                dest = a0['l']
        if a0 is None or a0['l'] != dest:
            return None
        if call_matches(tt, ['Try>::branch', 'Try::branch']):
            sw = tt.get('target')
            si = body.switch_info(sw) if sw is not None and body.term(sw)['k'] == 'switch' else None
            if si and si.get('kind') == 'enum':
                return si['variants'].get('Continue'), si['variants'].get('Break')
            return None
        if transparent(tt):
            dest = tt['dest']['l']
            cur = nxt
            continue
        return None
    return None


def strip_generics(s):
    """drop generic argument lists: `A::<'a, T>::f` -> `A::f`, `<X<'a> as T<'de>>::m` -> `<X as T>::m`"""
    out = []
    depth = 0      # depth inside generic-argument brackets being dropped
    qual = []      # stack of kept '<' (qualified-self brackets)
    i = 0
    n = len(s)
    while i < n:
        c = s[i]
        if c == '<':
            prev = s[i - 1] if i > 0 else ''
            if depth > 0:
                depth += 1
            elif prev.isalnum() or prev == '_' or (prev == ':' ):
                depth = 1
                # also drop a preceding '::' turbofish
                if out[-2:] == [':', ':']:
                    out.pop(); out.pop()
            else:
                qual.append(len(out))
                out.append(c)
        elif c == '>':
            if i > 0 and s[i - 1] == '-':
                if depth == 0:
                    out.append(c)
            elif depth > 0:
                depth -= 1
            else:
                if qual:
                    qual.pop()
                out.append(c)
        else:
            if depth == 0:
                out.append(c)
        i += 1
    return ''.join(out)


def fn_label(body_or_id):
    """short human label for keys: Type::method or module::function (no generics, no lifetimes)."""
    s = body_or_id if isinstance(body_or_id, str) else body_or_id.id
    return strip_generics(s)


# ---------------------------------------------------------------------------
# comparison guards

_NEG = {'Eq': 'Ne', 'Ne': 'Eq', 'Lt': 'Ge', 'Ge': 'Lt', 'Gt': 'Le', 'Le': 'Gt'}
_MIRROR = {'Eq': 'Eq', 'Ne': 'Ne', 'Lt': 'Gt', 'Gt': 'Lt', 'Le': 'Ge', 'Ge': 'Le'}


def cmp_guards(body, bb):
    """Comparisons that are known to hold when control reaches `bb`.
    Returns [dict(op=<effective op that is TRUE at bb>, l=Origin, r=Origin, lop, rop, switch_bb, other=[succ blocks not taken])]"""
    out = []
    for d, si, taken in dominating_switches(body, bb):
        if si.get('kind') == 'enum':
            continue
        cond = switch_condition(body, si)
        neg = False
        while cond[0] == 'not':
            neg = not neg
            cond = cond[1]
        if cond[0] != 'cmp':
            continue
        op, lo, ro = cond[1], cond[2], cond[3]
        # which truth value does the taken edge stand for?
        if taken[0] == 'val':
            truth = (taken[1] != (0,))
        elif taken[0] == 'not':
            # otherwise-edge of `switch x {0 => ..}` means x != 0 => true
            truth = (0 in taken[1])
        else:
            continue
        if neg:
            truth = not truth
        eff = op if truth else _NEG[op]
        others = [s for s in body.succs(d) if not body.dominates(s, bb)]
        lo_, ro_ = origin(body, lo), origin(body, ro)
        out.append({'op': eff, 'l': lo_, 'r': ro_, 'lop': lo, 'rop': ro, 'switch_bb': d, 'other': others})
        # the same fact written the other way round (`a < b` is `b > a`): rules match either spelling
        out.append({'op': _MIRROR[eff], 'l': ro_, 'r': lo_, 'lop': ro, 'rop': lo, 'switch_bb': d, 'other': others, 'mirrored': True})
    return out


def option_guards(body, bb):
    """Option/Result/ControlFlow discriminant tests that hold at bb:
    [(variant names tuple, Origin of the scrutinised place, switch_bb, other successors)]"""
    out = []
    for d, si, taken in dominating_switches(body, bb):
        if si.get('kind') != 'enum':
            continue
        if taken[0] == 'variant':
            names = taken[1]
        else:
            names = tuple(taken[1])
        others = [s for s in body.succs(d) if not body.dominates(s, bb)]
        out.append((names, si.get('adt'), origin(body, si['place']), d, others))
    return out


def all_paths_err(body, start, avoid=()):
    """every return reachable from `start` is an Err return (no Ok aggregate / plain forward)"""
    reach = body.reachable_from(start, avoid=avoid)
    oks = set(ok_return_blocks(body, reach))
    if oks:
        return False
    errs = set(err_return_blocks(body, reach))
    if avoid and not errs:
        # with an avoid set "no return reachable" would hold vacuously (the path just re-enters a loop): not an error path
        return False
    # each exit path must pass an err block: remove err blocks and see whether a return is reachable
    r2 = body.reachable_from(start, avoid=set(avoid) | errs)
    for b in r2:
        if body.term(b)['k'] in ('return', 'tailcall'):
            # reached a return without an explicit Err assignment: accept only if _0 was assigned by a call
            # (forwarding another function's Result) -- caller decides; report False conservatively
            return False
    return True


def deep_call_names(body, op, depth=3):
    """names of all calls a value derives from, also looking into the arguments of non-transparent calls"""
    seen = set()
    todo = [(op, 0)]
    while todo:
        o_, d = todo.pop()
        o = origin(body, o_)
        for c in o.calls:
            seen.add(cname(c))
        for a in o.atoms:
            if a[0] == 'call':
                seen.add(a[1])
        if d < depth:
            for c in o.calls:
                if not transparent(c):
                    for arg in c.get('args', []):
                        todo.append((arg, d + 1))
    return seen


# ---------------------------------------------------------------------------
# more shared helpers

def return_origin(body):
    """origin of everything assigned to the return place (Ok/Err payloads, forwarded results), plus
    ('ret', adt, variant) atoms naming the aggregates built directly into it"""
    res = origin(body, {'copy': {'l': 0}})
    for d in body.defs().get(0, []):
        bb, idx, kind, payload, lhs = d
        if bb not in body.live_blocks() or body.is_cleanup(bb):
            continue
        if kind == 'assign' and payload['k'] == 'agg' and payload.get('agg') == 'adt':
            res.atoms.add(('ret', payload.get('adt'), payload.get('variant')))
    return res


def same_value(o1, o2):
    """two origins denote the same runtime value (same non-empty atom set, no arithmetic on either side)"""
    return bool(o1.atoms) and o1.atoms == o2.atoms and o1.fields == o2.fields and not o1.has_arith() and not o2.has_arith()


def sub_is_guarded(body, bb, lop, rop):
    """`l - r` evaluated in block bb cannot underflow: a dominating comparison establishes l >= r (or l != 0 / l > 0
    when r is the constant 1 ...)"""
    lo, ro = origin(body, lop), origin(body, rop)
    rc = ro.consts() if not [a for a in ro.atoms if a[0] != 'const'] else None
    for g in cmp_guards(body, bb):
        gl, gr, op = g['l'], g['r'], g['op']
        # l >= r / r <= l
        if op in ('Ge', 'Gt') and same_value(gl, lo) and (same_value(gr, ro) or (rc and gr.consts() == rc and not gr.params())):
            return True
        if op in ('Le', 'Lt') and same_value(gr, lo) and (same_value(gl, ro) or (rc and gl.consts() == rc and not gl.params())):
            return True
        # l - 1 under l != 0 or l > 0
        if rc == {1}:
            if op == 'Ne' and ((same_value(gl, lo) and gr.consts() == {0}) or (same_value(gr, lo) and gl.consts() == {0})):
                return True
            if op == 'Gt' and same_value(gl, lo) and gr.consts() == {0}:
                return True
            if op == 'Lt' and same_value(gr, lo) and gl.consts() == {0}:
                return True
    return False


def short_fn(label):
    """module-independent function key: `Type::method`, `<Type as Trait>::method` (last segments), `function`,
    with closure suffixes kept - so that moving a function to a sibling module does not change inventory keys"""
    s = label
    suffix = ''
    while True:
        i = s.rfind('::{closure#')
        if i >= 0 and s.endswith('}'):
            suffix = s[i:] + suffix
            s = s[:i]
        else:
            break
    def last(seg):
        return seg.rsplit('::', 1)[-1]
    if s.startswith('<') and ' as ' in s:
        inner, _, meth = s[1:].rpartition('>::')
        ty, _, tr = inner.partition(' as ')
        return '<%s as %s>::%s%s' % (last(ty), last(tr), meth, suffix)
    parts = s.split('::')
    if len(parts) >= 2 and parts[-2][:1].isupper():
        return '%s::%s%s' % (parts[-2], parts[-1], suffix)
    return parts[-1] + suffix


def expr_tree(body, op, depth=8, at_bb=None):
    """expression tree of an operand following unique definitions: nested tuples
    ('c', int) | ('named', path) | ('param', n) | ('field', name, base) | ('index', base, idx) | (binop, l, r) |
    ('cast', to_ty, e) | ('call', callee, [args]) | ('?', why)"""
    if depth <= 0:
        return ('?', 'depth')
    c = op_const(op) if isinstance(op, dict) and ('const' in op) else None
    if c is not None:
        v = c.get('val', {})
        if 'named' in c and 'promoted' not in c:
            return ('named', c['named'])
        if 'int' in v:
            return ('c', v['int'])
        if 'fn' in c:
            return ('fn', c['fn'])
        return ('const', c.get('ty'))
    p = op_place(op) if isinstance(op, dict) and ('copy' in op or 'move' in op) else op
    if p is None:
        return ('?', 'operand')
    return _place_tree(body, p, depth)


def _place_tree(body, p, depth):
    l = p['l']
    proj = p.get('p', [])
    base = _local_tree(body, l, depth)
    for e in proj:
        if e == '*':
            continue
        if isinstance(e, dict):
            if 'f' in e:
                base = ('field', e['f'], base)
            elif 'i' in e:
                base = ('field', str(e['i']), base)
            elif 'idx' in e:
                base = ('index', base, _local_tree(body, e['idx'], depth - 1))
            elif 'cidx' in e:
                base = ('index', base, ('c', e['cidx']))
            elif 'as' in e:
                base = ('as', e['as'], base)
    return base


def _local_tree(body, l, depth):
    if depth <= 0:
        return ('?', 'depth')
    if 1 <= l <= body.nargs:
        return ('param', l)
    defs = [d for d in body.defs().get(l, []) if d[0] in body.live_blocks() and not body.is_cleanup(d[0]) and not d[4].get('p')]
    if len(defs) != 1:
        return ('?', '%d defs of _%d' % (len(defs), l))
    bb, idx, kind, payload, lhs = defs[0]
    if kind == 'call':
        t = payload
        # `u64::from(x)` / `x.into()` between integer types is the lossless form of `x as u64`
        c_ = t.get('callee') or ''
        if c_.endswith(('convert::From::from', 'convert::Into::into')) and len(t['args']) == 1:
            to_ = body.local_ty(t['dest']['l'])
            fr_ = (t.get('arg_tys') or [''])[0]
            if to_ in _INT_BITS and fr_ in _INT_BITS and _INT_BITS[fr_] <= _INT_BITS[to_]:
                return ('cast', to_, expr_tree(body, t['args'][0], depth - 1))
        return ('call', cname(t), [expr_tree(body, a, depth - 1) for a in t['args']])
    rv = payload
    k = rv['k']
    if k == 'use':
        return expr_tree(body, rv['op'], depth - 1)
    if k in ('ref', 'rawptr'):
        return _place_tree(body, rv['place'], depth - 1)
    if k == 'cast':
        return ('cast', rv['to'], expr_tree(body, rv['op'], depth - 1))
    if k == 'bin':
        return (rv['op'], expr_tree(body, rv['l'], depth - 1), expr_tree(body, rv['r'], depth - 1))
    if k == 'un':
        return (rv['op'], expr_tree(body, rv['a'], depth - 1))
    return ('?', k)


def deep_fields(body, op, depth=3):
    """field names a value derives from, also looking into the arguments of non-transparent calls"""
    seen = set()
    todo = [(op, 0)]
    n = 0
    while todo and n < 200:
        n += 1
        o_, d = todo.pop()
        o = origin(body, o_)
        seen |= o.fields
        if d < depth:
            for c in o.calls:
                if not transparent(c):
                    for arg in c.get('args', []):
                        todo.append((arg, d + 1))
    return seen


def const_texts(body, t):
    """string / byte-string constants reaching the arguments of a call (also through locals): decoded text"""
    out = []
    for a in t.get('args', []):
        o = origin(body, a)
        for x in o.consts():
            if isinstance(x, str):
                if x.startswith('bytes '):
                    try:
                        out.append(bytes.fromhex(x[6:]).decode('latin1'))
                    except ValueError:
                        pass
                else:
                    out.append(x)
    return out


_INT_BITS = {'u8': 8, 'i8': 8, 'u16': 16, 'i16': 16, 'u32': 32, 'i32': 32, 'u64': 64, 'i64': 64, 'usize': 64, 'isize': 64, 'u128': 128, 'i128': 128}


def narrowing_casts(o):
    """integer `as` casts in an origin that can drop bits (target narrower than source)"""
    out = []
    for fl in o.flags:
        if fl.startswith('cast:IntToInt:'):
            a, b = fl[len('cast:IntToInt:'):].split('->')
            if _INT_BITS.get(b, 0) < _INT_BITS.get(a, 999):
                out.append('%s as %s' % (a, b))
    return sorted(out)


def array_newtype(facts, ty, n):
    """ty is `[u8; n]`, or a struct whose only field is `[u8; n]` and whose PartialEq (if any) is the derived one"""
    ty = ty.lstrip('&').strip()
    if ty.startswith('mut '):
        ty = ty[4:]
    if ty == '[u8; %d]' % n:
        return True
    a = facts.adts.get(ty.split('<')[0])
    if not a or a['kind'] != 'struct' or len(a['variants'][0]['fields']) != 1 or a['variants'][0]['fields'][0]['ty'] != '[u8; %d]' % n:
        return False
    for im in facts.impls:
        if im.get('self_adt') == a['path'] and (im.get('trait') or '').endswith('cmp::PartialEq'):
            if 'Derive' not in str((im.get('span') or {}).get('macro', '')):
                return False
    return True


def compares_whole_arrays(body, t, n):
    """a PartialEq::eq/ne call compares two whole [u8; n] values: both argument types are (references to) the array,
    or, if they are slices, no index / range projection other than the full range lies on their origin"""
    for i, ty in enumerate(t.get('arg_tys', [])[:2]):
        if '[u8; %d]' % n in ty or array_newtype(body.facts, ty, n):
            continue
        o = origin(body, t['args'][i])
        if 'subslice' in o.flags:
            return False
        ix = [c for c in o.calls if (c.get('callee') or '').endswith(('ops::index::Index::index', 'ops::index::IndexMut::index_mut'))]
        if not ix or any(len(c.get('arg_tys', [])) < 2 or not c['arg_tys'][1].endswith('ops::range::RangeFull') for c in ix):
            return False
        if not any('[u8; %d]' % n in c['arg_tys'][0] for c in ix):
            return False
    return True


_POSITIONAL = ('iter::traits::iterator::Iterator::take', 'iter::traits::iterator::Iterator::skip', 'iter::traits::iterator::Iterator::step_by',
               'iter::traits::iterator::Iterator::nth', 'iter::traits::iterator::Iterator::last',
               'slice::<impl [T]>::first', 'slice::<impl [T]>::last', 'slice::<impl [T]>::split_at', 'slice::<impl [T]>::split_first',
               'slice::<impl [T]>::split_last', 'slice::<impl [T]>::first_mut', 'slice::<impl [T]>::last_mut', 'slice::<impl [T]>::chunks',
               'slice::<impl [T]>::windows', 'vec::Vec::<T, A>::truncate', 'vec::Vec::<T, A>::split_off')


def positional_truncations(body, with_closures=True):
    """calls in a traversal that select elements *by position* (take / skip / nth / first / sub-range indexing):
    a traversal that must visit every child has none.  Content-based adaptors (filter, take_while) are not listed."""
    out = []
    bodies = [body]
    if with_closures:
        bodies += [c for c in body.facts.body_list if c.id.startswith(body.id + '::{closure#')]
    for b in bodies:
        for bb, t in b.calls():
            nm = t.get('callee') or cname(t)
            full = cname(t)
            if any(nm.endswith(p) or full.endswith(p) or strip_generics(full).endswith(strip_generics(p)) for p in _POSITIONAL):
                out.append((b, bb, strip_generics(full).split('::')[-1]))
                continue
            if nm.endswith(('ops::index::Index::index', 'ops::index::IndexMut::index_mut')) or '::get' in nm[-12:]:
                tys = t.get('arg_tys', [])
                if len(tys) > 1 and 'ops::range::Range' in tys[1] and 'RangeFull' not in tys[1]:
                    out.append((b, bb, 'index by ' + tys[1].split('::')[-1]))
    return out


def fmt_template_literals(body, op):
    """decode the byte template handed to core::fmt::Arguments::new on this toolchain: returns (literal text, has_spec)
    - a byte < 0x80 is the length of a literal piece that follows, 0xc0 is a plain `{}` placeholder, any other byte
    >= 0x80 a placeholder with a format spec, 0x00 ends the template.  None if the operand is not a constant template."""
    o = origin(body, op)
    hexs = [a[1][6:] for a in o.atoms if a[0] == 'const' and isinstance(a[1], str) and a[1].startswith('bytes ')]
    if len(hexs) != 1 or len(o.atoms) != 1:
        return None
    try:
        raw = bytes.fromhex(hexs[0])
    except ValueError:
        return None
    i, lit, spec = 0, '', False
    while i < len(raw):
        b = raw[i]
        if b == 0:
            break
        if b < 0x80:
            lit += raw[i + 1:i + 1 + b].decode('latin-1')
            i += 1 + b
        elif b == 0xc0:
            i += 1
        else:
            spec = True
            break
    return lit, spec


def const_folded_reachable(body):
    """blocks reachable from the entry when every switch whose scrutinee is a compile-time constant takes only the
    matching edge (`if cond && false { .. }` makes the body unreachable)"""
    seen = set()
    st = [0]
    while st:
        bb = st.pop()
        if bb in seen:
            continue
        seen.add(bb)
        t = body.term(bb)
        nxt = None
        if t['k'] == 'switch':
            o = origin(body, t['op'])
            if len(o.atoms) == 1 and not o.flags - {'deref'}:
                a = next(iter(o.atoms))
                cv = {'true': 1, 'false': 0}.get(a[1], a[1]) if a[0] == 'const' else None
                if isinstance(cv, (bool, int)):
                    v = int(cv)
                    tg = [x['bb'] for x in t['targets'] if x['v'] == v]
                    nxt = tg[:1] if tg else [t['otherwise']]
        if nxt is None:
            nxt = [s for s in body.succs(bb)]
        for s in nxt:
            if s not in seen:
                st.append(s)
    return seen


def follow_const_bool(body, bb, limit=4):
    """`matches!(x, P)` lowers to `arm: tmp = const true/false; goto J` and `J: switch tmp`: starting in such an arm,
    return the block the join's switch takes for that constant (else bb itself)"""
    cur = bb
    for _ in range(limit):
        t = body.term(cur)
        if t['k'] != 'goto':
            return cur
        consts = {}
        for s in body.stmts(cur):
            if 'assign' in s and not s['assign'].get('p') and s['rv']['k'] == 'use' and 'const' in s['rv']['op']:
                v = const_int(s['rv']['op'])
                if v is not None:
                    consts[s['assign']['l']] = v
        j = t['target']
        tj = body.term(j)
        if tj['k'] == 'switch' and not body.stmts(j):
            p = op_place(tj['op'])
            if p is not None and not p.get('p') and p['l'] in consts:
                v = consts[p['l']]
                tg = [x['bb'] for x in tj['targets'] if x['v'] == v]
                cur = tg[0] if tg else tj['otherwise']
                continue
        return cur
    return cur


def with_helpers(body, keep=(), depth=2):
    """`body` with its crate-local private helper functions inlined (see core.inline_helpers): a private free function
    or inherent method that is not one of the rule's own anchors (`keep`: labels or ids) is treated as part of its
    caller, so that `extract function` refactors do not move code out of a rule's sight"""
    from .core import inline_helpers
    if body is None:
        return None
    facts = body.facts
    keep = set(keep)

    def is_helper(cb):
        if cb.id in keep or fn_label(cb) in keep or short_fn(fn_label(cb)) in keep:
            return False
        if cb.j.get('impl_trait'):
            return False
        return facts.fns.get(cb.id, {}).get('vis', 'pub') != 'pub'
    return inline_helpers(body, is_helper, depth=depth)


def mentions_field(body, field, of=None):
    """some place in the (live, non-cleanup) code of body projects through the field"""
    def walk(x):
        if isinstance(x, dict):
            if x.get('f') == field and (of is None or x.get('of') == of):
                return True
            return any(walk(v) for v in x.values())
        if isinstance(x, list):
            return any(walk(v) for v in x)
        return False
    for bb in body.live_blocks():
        if body.is_cleanup(bb):
            continue
        if walk(body.stmts(bb)) or walk(body.term(bb)):
            return True
    return False


def is_bool_table(ty):
    """a per-node boolean table however it is passed: Vec<bool>, &mut Vec<bool>, &mut [bool], Box<[bool]>"""
    return 'Vec<bool>' in ty or '[bool]' in ty


def status_table_enum(facts, ty):
    """the element enum of a per-node *status* table (`Vec<NodeStatus>`, `&mut [NodeStatus]`): a field-less crate enum with
    three variants (new / on the stack / done) - the two boolean tables of a depth-first search merged into one"""
    import re as _re
    m = _re.search(r'(?:Vec<|\[)([A-Za-z_][\w:<>\' ]*?)(?:>|\])', ty or '')
    if not m:
        return None
    a = facts.adts.get(m.group(1).strip())
    if a and a.get('kind') == 'enum' and len(a.get('variants', [])) == 3 and all(not v.get('fields') for v in a['variants']):
        return a
    return None


VISITED_FIELDS = ('named_type_written', 'unnamed_in_progress', 'node_traversal_state', 'visited_nodes', 'in_progress', 'visited')


def visited_field_names(facts):
    """field names under which per-node traversal state is kept: the reviewed ones, plus any `Vec<S>` field whose
    element S is a private struct holding one of them (two parallel per-node tables merged into one table of structs)"""
    cached = getattr(facts, '_visited_fields', None)
    if cached is not None:
        return cached
    out = set(VISITED_FIELDS)
    elems = [a['path'] for a in facts.adts.values() if a.get('kind') == 'struct' and a.get('variants') and
             any(fd.get('name') in VISITED_FIELDS for fd in a['variants'][0].get('fields', []))]
    for a in facts.adts.values():
        for v in a.get('variants', []):
            for fd in v.get('fields', []):
                ty = fd.get('ty') or ''
                if any(('Vec<%s>' % e) in ty or ('[%s]' % e) in ty for e in elems):
                    out.add(fd.get('name'))
    facts._visited_fields = out
    return out


def slice_advance_shape(b):
    """How a function advances a slice by a caller-given n with a bounds check: 'get' (`.get(n..)`, None => Err),
    'cmp' (`n > len => Err`, then `&slice[n..]`), or None.  n is the function's second parameter after a checked
    conversion, unmodified."""
    gets = [(bb, t) for bb, t in b.calls() if call_matches(t, ['slice::<impl [T]>::get']) and not b.is_cleanup(bb)]
    if len(gets) == 1:
        bb, t = gets[0]
        ro = origin(b, t['args'][1])
        none_err = False
        for sbb in sorted(b.live_blocks()):
            if b.term(sbb)['k'] == 'switch':
                si = b.switch_info(sbb)
                if si.get('kind') == 'enum' and si.get('adt') == 'core::option::Option':
                    nb = si['variants'].get('None', si['otherwise'] if 'None' in (si.get('otherwise_variants') or []) else None)
                    if nb is not None and all_paths_err(b, nb):
                        none_err = True
        if ro.params() == {2} and 'try_into' in ro.flags and not ro.has_arith() and none_err and any(a[0] == 'agg' and a[1].endswith('RangeFrom') for a in ro.atoms):
            return 'get'
    idx = [(bb, t) for bb, t in b.calls() if call_matches(t, ['Index::index', 'Index<I>>::index']) and not b.is_cleanup(bb) and
           len(t.get('arg_tys', [])) > 1 and 'RangeFrom<' in t['arg_tys'][1]]
    if len(idx) == 1 and not gets:
        bb, t = idx[0]
        ro = origin(b, t['args'][1])
        na = {a for a in ro.atoms if a[0] != 'agg'}
        if ro.params() == {2} and 'try_into' in ro.flags and not ro.has_arith():
            for g in cmp_guards(b, bb):
                if g['op'] == 'Le' and g['l'].atoms == na and 'len' in g['r'].flags and all(all_paths_err(b, o_) for o_ in g['other']):
                    return 'cmp'
    return None


SPLIT_AT = ['slice::<impl [T]>::split_at', 'slice::<impl [T]>::split_at_checked']


def split_is_bounded(body, bb, t, n_params=None, need_slice_field=False):
    """the split at block bb cannot go past the end: `split_at(n)` dominated by n <= len (the other edge returns Err on
    every path), or `split_at_checked(n)` whose `None` edge returns Err on every path"""
    no = origin(body, t['args'][1])
    if n_params is not None and no.params() != n_params:
        return False
    if cname(t).endswith('split_at_checked') or (t.get('callee') or '').endswith('split_at_checked'):
        dl = (t.get('dest') or {}).get('l')
        for d in body.live_blocks():
            if body.is_cleanup(d) or body.term(d).get('k') != 'switch':
                continue
            si = body.switch_info(d)
            if si.get('kind') != 'enum' or not (si.get('adt') or '').endswith('option::Option'):
                continue
            so = origin(body, si['place'])
            if not any(c is t for c in so.calls):
                continue
            tgt = si['variants'].get('None', si.get('otherwise'))
            if tgt is not None and all_paths_err(body, tgt):
                return True
        return False
    for g in cmp_guards(body, bb):
        if g['op'] == 'Le' and g['l'].params() == no.params() and 'len' in g['r'].flags and (not need_slice_field or 'slice' in g['r'].fields):
            if all(all_paths_err(body, s_) for s_ in g['other']):
                return True
        if g['op'] == 'Ge' and g['r'].params() == no.params() and 'len' in g['l'].flags and (not need_slice_field or 'slice' in g['l'].fields):
            if all(all_paths_err(body, s_) for s_ in g['other']):
                return True
    return False


def index_path_from_call(body, op, t, depth=8):
    """tuple/field index path [i, j, ..] by which operand `op` is taken out of the result of call `t` (following plain
    copies/moves and reborrows), or None: `let Some((header, datum)) = s.split_first_chunk::<10>()` gives datum the path
    [0, 1] (payload of Some, second tuple element)"""
    dl = (t.get('dest') or {}).get('l')
    p = op_place(op) if isinstance(op, dict) and ('copy' in op or 'move' in op) else op
    path = []
    while p is not None and depth > 0:
        depth -= 1
        idx = [e['i'] for e in p.get('p', []) if isinstance(e, dict) and 'i' in e and 'f' not in e] + \
              [e['i'] for e in p.get('p', []) if isinstance(e, dict) and 'f' in e and isinstance(e.get('i'), int)]
        idx = [e.get('i') for e in p.get('p', []) if isinstance(e, dict) and isinstance(e.get('i'), int)]
        path = idx + path
        if p['l'] == dl:
            return path
        defs = [d for d in body.defs().get(p['l'], []) if d[0] in body.live_blocks() and not body.is_cleanup(d[0]) and not d[4].get('p')]
        if len(defs) != 1 or defs[0][2] != 'assign':
            return None
        rv = defs[0][3]
        if rv['k'] == 'use':
            p = op_place(rv['op'])
        elif rv['k'] in ('ref', 'rawptr'):
            p = rv['place']
        else:
            return None
    return None


def fields_read_from_call(body, t):
    """names of the fields projected out of the value a call returns (`state.table[i].written`: the Index call's result,
    then `.written`)"""
    dl = (t.get('dest') or {}).get('l')
    out = set()
    todo, seen = [dl], set()
    while todo:
        l = todo.pop()
        if l in seen or l is None:
            continue
        seen.add(l)
        for bb in body.live_blocks():
            for s_ in body.stmts(bb):
                if 'assign' not in s_:
                    continue
                rv = s_['rv']
                for pl in ([rv.get('place')] if rv.get('k') in ('ref', 'rawptr', 'discr') else []) + ([op_place(rv['op'])] if rv.get('k') == 'use' else []):
                    if pl and pl.get('l') == l:
                        for e in pl.get('p', []):
                            if isinstance(e, dict) and 'f' in e:
                                out.add(e['f'])
                        if not s_['assign'].get('p'):
                            todo.append(s_['assign']['l'])
                ap = s_['assign']
                if ap.get('l') == l:
                    for e in ap.get('p', []):
                        if isinstance(e, dict) and 'f' in e:
                            out.add(e['f'])
            tm = body.term(bb)
            if tm.get('k') == 'switch':
                pl = op_place(tm.get('op'))
    return out
