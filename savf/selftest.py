"""Checker self-test on scratch copies: breaking mutants must be reported, benign ones must stay silent.
Static analysis of patched copies only; nothing of serde_avro_fast is executed."""
import concurrent.futures as cf, glob, os, re, shutil, subprocess, tempfile, threading

V = os.path.dirname(os.path.dirname(os.path.abspath(__file__)))


def mutants_for(prop):
    br = sorted(glob.glob(os.path.join(V, 'mutants', 'break', prop + '-*.diff')))
    allbn = sorted(glob.glob(os.path.join(V, 'mutants', 'benign', '*.diff')))
    # the thorough tier of one property runs the benign refactors written for it plus a fixed 1-in-8 slice of the
    # others (tools/selftest.py runs every benign patch against every property)
    try:
        k = int(prop[1:]) % 8
    except ValueError:
        k = 0
    named = [p for p in allbn if prop in os.path.basename(p)]
    rest = [p for p in allbn if p not in named]
    bn = named + [p for i, p in enumerate(rest) if i % 8 == k]
    return br, bn


def run_one(patch, props, slot):
    d = tempfile.mkdtemp(prefix='savf-st.')
    try:
        subprocess.run(['rsync', '-a', '--exclude', 'target', '--exclude', '.git', '/repo/', d + '/repo/'], check=True)
        r = subprocess.run(['patch', '-p1', '--no-backup-if-mismatch', '-s', '-i', patch], cwd=d + '/repo', stdout=subprocess.PIPE, stderr=subprocess.STDOUT, text=True)
        if r.returncode != 0:
            return {'patch': 'does not apply'}
        env = dict(os.environ, SAVF_TARGET='target-w%d-%d' % (os.getpid(), slot))
        env.pop('VERIF_TIER', None)
        res = {}
        for p in props:
            rr = subprocess.run([os.path.join(V, 'check'), p, '--repo', d + '/repo', '--no-evidence', '--tier', 'quick'], stdout=subprocess.PIPE, stderr=subprocess.STDOUT, text=True, env=env)
            res[p] = {'exit': rr.returncode if not (rr.returncode == 1 and 'VIOLATION property=' not in rr.stdout) else 3, 'keys': re.findall(r'^  key    (\S+)', rr.stdout, re.M)[:4]}
        return res
    finally:
        shutil.rmtree(d, ignore_errors=True)


def selftest(prop, jobs=8):
    br, bn = mutants_for(prop)
    slots = list(range(jobs))
    lock = threading.Lock()

    def work(item):
        kind, patch = item
        with lock:
            slot = slots.pop()
        try:
            return kind, os.path.basename(patch)[:-5], run_one(patch, [prop], slot)
        finally:
            with lock:
                slots.append(slot)
    out = {'breaking': {}, 'benign': {}}
    with cf.ThreadPoolExecutor(max_workers=jobs) as ex:
        for kind, name, res in ex.map(work, [('breaking', p) for p in br] + [('benign', p) for p in bn]):
            out[kind][name] = res.get(prop, res)
    # the per-worker cargo target directories are a cache for this run only (several GB each): drop them
    import glob
    for d_ in glob.glob(os.path.join(V, '.work', 'target-w%d-*' % os.getpid())):
        shutil.rmtree(d_, ignore_errors=True)
    killed = sum(1 for v in out['breaking'].values() if v.get('exit') == 1)
    silent = sum(1 for v in out['benign'].values() if v.get('exit') == 0)
    return {'mutants_applied': len(br), 'mutants_killed': killed, 'missed': sorted(k for k, v in out['breaking'].items() if v.get('exit') != 1),
            'benign_applied': len(bn), 'benign_silent': silent, 'benign_alarms': sorted(k for k, v in out['benign'].items() if v.get('exit') != 0),
            'samples': {k: v for k, v in list(out['breaking'].items())[:5]}}
