import sys
sys.path.insert(0, '/verif')
from savf.core import Facts
crate, pat = sys.argv[1], sys.argv[2]
d = sys.argv[3] if len(sys.argv) > 3 else '/verif/.work/facts/all'
f = Facts('%s/%s.json' % (d, crate))
for b in f.body_list:
    if pat in b.id:
        b.dump()
        print()
