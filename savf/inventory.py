"""Closed inventories: panic-capable constructs, allocation-capable callees, loops."""
from .lib import *
from .core import short_loc

PANIC_CALLEES = [
    ('core::option::Option::<T>::unwrap', 'unwrap'), ('core::option::Option::<T>::expect', 'expect'),
    ('core::result::Result::<T, E>::unwrap', 'unwrap'), ('core::result::Result::<T, E>::expect', 'expect'),
    ('core::result::Result::<T, E>::unwrap_err', 'unwrap'), ('core::result::Result::<T, E>::expect_err', 'expect'),
    ('core::panicking::panic', 'panic'), ('core::panicking::panic_fmt', 'panic'), ('core::panicking::panic_display', 'panic'),
    ('core::panicking::unreachable_display', 'panic'), ('core::panicking::assert_failed', 'assert'),
    ('core::panicking::panic_explicit', 'panic'), ('core::panicking::panic_nounwind', 'panic'),
    ('std::rt::begin_panic', 'panic'), ('core::panicking::panic_const', 'panic'),
    ('core::slice::<impl [T]>::split_at', 'split_at'), ('core::slice::<impl [T]>::split_at_mut', 'split_at'),
    ('core::slice::<impl [T]>::copy_from_slice', 'copy_from_slice'), ('core::slice::<impl [T]>::clone_from_slice', 'copy_from_slice'),
    ('core::str::<impl str>::split_at', 'split_at'),
    ('core::cell::RefCell::<T>::borrow_mut', 'refcell'), ('core::cell::RefCell::<T>::borrow', 'refcell'),
    ('alloc::vec::Vec::<T, A>::remove', 'vec_index'), ('alloc::vec::Vec::<T, A>::swap_remove', 'vec_index'),
    ('alloc::vec::Vec::<T, A>::insert', 'vec_index'), ('alloc::vec::Vec::<T, A>::drain', 'drain'),
    ('alloc::vec::Vec::<T, A>::split_off', 'vec_index'), ('alloc::string::String::remove', 'string_index'),
    ('core::num::<impl usize>::pow', 'arith'), ('core::num::<impl i128>::pow', 'arith'),
]


def panic_kind_of_call(t):
    c = t.get('callee') or ''
    r = t.get('resolved') or ''
    for name, kind in PANIC_CALLEES:
        if c == name or r == name or c.startswith(name + '::') or c.startswith('core::panicking::panic_const::'):
            return kind if not c.startswith('core::panicking::panic_const::') else 'panic'
    # indexing through the Index/IndexMut traits (slices, arrays, Vec, str, HashMap): panics on a bad index
    if c in ('core::ops::index::Index::index', 'core::ops::index::IndexMut::index_mut'):
        tys = t.get('arg_tys', [])
        if len(tys) > 1 and tys[1].endswith('ops::range::RangeFull') and (tys[0].lstrip('&').lstrip('mut ').startswith('[') or 'Vec<' in tys[0]):
            return None   # x[..] on a slice / array / Vec selects everything and cannot panic
        return 'index'
    if 'target' not in t and c and not c.startswith('core::intrinsics') :
        # diverging call
        return 'diverges'
    return None


def panic_sites(body):
    """[(kind, bb, loc, text)] of panic-capable constructs in live, non-cleanup blocks"""
    out = []
    spliced = set()
    for bb in sorted(body.live_blocks()):
        if body.is_cleanup(bb):
            continue
        # one construct of a helper that was spliced into several call sites is one construct
        tag = body.blocks[bb].get('inlined_bb')
        if tag is not None:
            if tag in spliced:
                continue
            spliced.add(tag)
        t = body.term(bb)
        if t['k'] == 'assert':
            out.append((('assert:' + t['kind']), bb, short_loc(t.get('span')), t['kind']))
        elif t['k'] in ('call', 'tailcall'):
            k = panic_kind_of_call(t)
            if k:
                out.append((k, bb, short_loc(t.get('span')), cname(t)))
    return out


ALLOC_CALLEES = [
    'alloc::vec::Vec::<T>::with_capacity', 'alloc::vec::Vec::<T, A>::with_capacity_in', 'alloc::vec::Vec::<T, A>::resize',
    'alloc::vec::Vec::<T, A>::reserve', 'alloc::vec::Vec::<T, A>::reserve_exact', 'alloc::vec::Vec::<T, A>::push',
    'alloc::vec::Vec::<T, A>::extend_from_slice', 'alloc::vec::Vec::<T, A>::resize_with', 'alloc::vec::Vec::<T, A>::insert',
    'alloc::vec::from_elem', 'alloc::slice::<impl [T]>::to_vec', 'alloc::slice::<impl [T]>::to_owned',
    'alloc::string::String::with_capacity', 'alloc::string::String::push_str', 'alloc::string::String::push',
    'alloc::string::ToString::to_string', 'alloc::borrow::ToOwned::to_owned', 'alloc::boxed::Box::<T>::new',
    'alloc::fmt::format', 'core::iter::traits::iterator::Iterator::collect', 'core::iter::traits::collect::Extend::extend',
    'alloc::str::<impl str>::to_owned', 'alloc::str::<impl str>::to_string', 'core::clone::Clone::clone',
    'alloc::vec::Vec::<T, A>::append', 'alloc::collections::vec_deque::VecDeque::<T, A>::push_back',
    'std::collections::hash::map::HashMap::<K, V, S, A>::insert', 'alloc::sync::Arc::<T>::new', 'alloc::rc::Rc::<T>::new',
    'std::io::Read::read_to_end', 'std::io::Read::read_to_string', 'alloc::string::String::from_utf8_lossy',
    'core::convert::Into::into', 'core::convert::From::from',
]


def alloc_sites(body):
    out = []
    for bb, t in body.calls():
        if body.is_cleanup(bb):
            continue
        c = t.get('callee') or ''
        if c in ALLOC_CALLEES:
            # Clone / Into / From only matter when the target type owns heap data
            if c in ('core::clone::Clone::clone', 'core::convert::Into::into', 'core::convert::From::from'):
                tys = ' '.join(t.get('substs', []))
                if not any(x in tys for x in ('Vec<', 'String', 'Box<', 'HashMap<', 'Arc<', 'Rc<')):
                    continue
            out.append((bb, t, c))
    return out


def natural_loops(body):
    """back edges (src -> header) where header dominates src; returns {header: set(blocks in loop)}"""
    loops = {}
    for b in body.live_blocks():
        if body.is_cleanup(b):
            continue
        for s in body.succs(b):
            if body.dominates(s, b):
                # collect loop body
                blk = {s, b}
                st = [b]
                while st:
                    x = st.pop()
                    if x == s:
                        continue
                    for p in body.preds(x):
                        if p not in blk and p in body.live_blocks():
                            blk.add(p)
                            st.append(p)
                loops.setdefault(s, set()).update(blk)
    return loops


# ---------------------------------------------------------------------------------------------------------------------
# Reviewed-site matching that survives a rename / move of the enclosing function.
# A reviewed panic-capable site is identified by (short function name, kind).  If the function was renamed the name no
# longer matches; the site is then recognised by its *signature*: what the construct operates on (fields, constants,
# callee), never names of locals or functions.  tables/panic_signatures.json holds the signatures of the reviewed sites
# on the reviewed tree (tools/mkpanictable.py); a signature only stands in for a reviewed entry whose own allowance has
# not been used up by name, so a second, new site with the same shape is still reported.

def _desc(body, op):
    from .lib import origin, strip_generics, cname
    if op is None:
        return ''
    o = origin(body, op)
    consts = sorted(str(a[1])[:40] for a in o.atoms if a[0] == 'const')
    calls = sorted({strip_generics(cname(c)).split('::')[-1] for c in o.calls})
    flags = sorted(x.split(':')[0] + ':' + x.split(':')[1] if x.startswith('arith:') else x for x in o.flags if x.startswith('arith:') or x in ('len', 'index', 'nz_get'))
    if o.fields:
        # a value read from named state is described by that state alone: flow-insensitive provenance would otherwise
        # fold the operation itself back in (`self.n = self.n + 1` once the helper is spliced into its caller)
        return 'f=%s c= k=%s a=' % (','.join(sorted(o.fields)), ','.join(calls))
    return 'f=%s c=%s k=%s a=%s' % (','.join(sorted(o.fields)), ','.join(consts), ','.join(calls), ','.join(flags))


def site_signature(body, kind, bb):
    from .lib import strip_generics, cname
    from .core import op_place
    t = body.term(bb)
    if t['k'] == 'assert':
        p = op_place(t['cond'])
        parts = []
        if p is not None:
            for d in body.defs().get(p['l'], []):
                if d[2] == 'assign' and d[3]['k'] == 'bin':
                    parts.append('%s(%s | %s)' % (d[3]['op'], _desc(body, d[3]['l']), _desc(body, d[3]['r'])))
        return '%s %s' % (kind, ' ; '.join(sorted(parts)))
    if t['k'] in ('call', 'tailcall'):
        args = t.get('args', [])
        return '%s %s(%s)' % (kind, strip_generics(cname(t)).split('::')[-1], ' | '.join(_desc(body, a) for a in args[:2]))
    return kind


_SIG_TABLE = None


def panic_signature_table():
    global _SIG_TABLE
    if _SIG_TABLE is None:
        import json, os
        p = os.path.join(os.path.dirname(os.path.abspath(__file__)), 'tables', 'panic_signatures.json')
        try:
            with open(p) as f:
                _SIG_TABLE = json.load(f)
        except OSError:
            _SIG_TABLE = {}
    return _SIG_TABLE


class ReviewedMatcher:
    """matches panic-capable sites against a reviewed table {(short_fn, kind): (count, reason)}"""

    def __init__(self, prop, reviewed, present_fns):
        self.prop = prop
        self.reviewed = reviewed
        self.used = {}
        self.present = present_fns           # short_fn labels present in the analysed scope
        self.sigs = panic_signature_table().get(prop, {})
        self.recorded = {}                   # for mkpanictable: key -> [signatures]

    # indexing a Vec goes through Index::index (kind `index`), indexing a slice / array is a built-in with a bounds
    # assert (kind `assert:bounds`): the same construct for review purposes
    _SAME = {'index': 'assert:bounds', 'assert:bounds': 'index'}

    def present_has_site(self, fn_, kind):
        ps = getattr(self, 'site_kinds', None)
        return ps is None or (fn_, kind) in ps or (fn_, self._SAME.get(kind)) in ps

    def match(self, body, short, kind, bb, cond=None):
        key = (short, kind)
        if key not in self.reviewed and (short, self._SAME.get(kind)) in self.reviewed:
            key = (short, self._SAME[kind])
        if key in self.reviewed and self.used.get(key, 0) < self.reviewed[key][0] and (cond is None or cond(body, bb)):
            self.used[key] = self.used.get(key, 0) + 1
            self.recorded.setdefault('%s|%s' % key, []).append(site_signature(body, kind, bb))
            return 'reviewed: ' + self.reviewed[key][1]
        # fallback: same construct in a function that no longer carries the reviewed name
        sig = site_signature(body, kind, bb)
        for k, sigs in sorted(self.sigs.items()):
            fn_, kd = k.rsplit('|', 1)
            rk = (fn_, kd)
            if kd != kind or rk not in self.reviewed:
                continue
            if fn_ in self.present and self.present_has_site(fn_, kd):
                continue      # the reviewed function is still there with a site of that kind: the entry is its own
            same = sig in sigs
            if not same and '::{closure#' in fn_ and '::{closure#' in short and fn_.split('::{closure#')[0] == short.split('::{closure#')[0] and ' | ' in sig:
                # a closure of the same function, renumbered because a sibling closure went away or came: what is
                # indexed may be built differently now, the index operand is the same
                same = any(' | ' in s_ and s_.split('(')[0] == sig.split('(')[0] and s_.rsplit(' | ', 1)[1] == sig.rsplit(' | ', 1)[1] for s_ in sigs)
            if same and self.used.get(rk, 0) < self.reviewed[rk][0] and (cond is None or cond(body, bb)):
                self.used[rk] = self.used.get(rk, 0) + 1
                return 'reviewed (site recognised by what it operates on; reviewed under the name %s): %s' % (fn_, self.reviewed[rk][1])
        return None
