"""Serializer dispatch matrix: (entry point x schema kind) -> wire tokens, from MIR arm regions."""
from .lib import *
from .core import op_place

DS = 'ser::serializer::DatumSerializer'
KINDS = ['Null', 'Boolean', 'Int', 'Long', 'Float', 'Double', 'Bytes', 'String', 'Array', 'Map', 'Union', 'Record',
         'Enum', 'Fixed', 'Decimal', 'BigDecimal', 'Uuid', 'Date', 'TimeMillis', 'TimeMicros', 'TimestampMillis',
         'TimestampMicros', 'Duration']

SER_ENTRY = ['serialize_bool', 'serialize_i8', 'serialize_i16', 'serialize_i32', 'serialize_i64', 'serialize_i128',
             'serialize_u8', 'serialize_u16', 'serialize_u32', 'serialize_u64', 'serialize_u128', 'serialize_f32',
             'serialize_f64', 'serialize_char', 'serialize_str', 'serialize_bytes', 'serialize_none', 'serialize_some',
             'serialize_unit', 'serialize_unit_struct', 'serialize_unit_variant', 'serialize_newtype_struct',
             'serialize_newtype_variant', 'serialize_seq', 'serialize_tuple', 'serialize_tuple_struct',
             'serialize_tuple_variant', 'serialize_map', 'serialize_struct', 'serialize_struct_variant']


def writer_touching(t):
    for ty in t.get('arg_tys', []):
        if 'SerializerState<' in ty or 'DatumSerializer<' in ty or ty in ('&mut W', 'W', '&mut &mut W') \
                or 'BlockWriter<' in ty:
            return True
    return False


def raw_class(body, t):
    """classify the buffer argument of a write_all call: (size or None, little_endian?, origin)"""
    o = origin(body, t['args'][1])
    size = None
    for f in o.flags:
        if f.startswith('coerce:&[u8; '):
            try:
                size = int(f[len('coerce:&[u8; '):].split(']')[0])
            except ValueError:
                pass
        if f.startswith('array:') and size is None:
            size = int(f.split(':')[1])
    le = any(call_matches(c, ['::to_le_bytes']) for c in o.calls)
    be = any(call_matches(c, ['::to_be_bytes']) for c in o.calls)
    if 'subslice' in o.flags or 'index' in o.flags or any(call_matches(c, ['Index::index', 'Index<I> for [T; N]>::index', 'index::Index>::index']) for c in o.calls):
        size = None
    return size, ('le' if le else 'be' if be else None), o


def classify(body, bb, t):
    """wire token of one call terminator inside the serializer, or None when neutral"""
    if call_matches(t, ['VarIntWriter::write_varint', 'VarIntWriter>::write_varint']):
        ty = t['substs'][-1] if t.get('substs') else '?'
        return ('VARINT', ty)
    if call_matches(t, ['io::Write::write_all', 'io::Write>::write_all']):
        size, end, o = raw_class(body, t)
        return ('RAW', size, end)
    if call_matches(t, ['SerializerState::<\'c, \'s, W>::write_length_delimited', '::write_length_delimited']):
        return ('LENDELIM',)
    if strip_generics(cname(t)).startswith('ser::serializer::decimal::') and writer_touching(t):
        return ('DECIMAL',)
    if call_matches(t, ['::serialize_union_unnamed']):
        keys = agg_variant_consts(body, t['args'][2])
        return ('UNION', tuple(sorted(keys)))
    if call_matches(t, ['::serialize_lookup_union_variant_by_name']):
        return ('BYNAME',)
    if call_matches(t, ['blocks::BlockWriter::<\'r, \'c, \'s, W>::new']):
        return ('BLOCKS',)
    c = strip_generics(cname(t))
    if c.endswith('BlockWriter::signal_next_record'):
        return ('BLOCKSTEP',)
    if c.endswith('BlockWriter::end'):
        return ('BLOCKEND',)
    if c.startswith('ser::serializer::seq_or_tuple::SerializeSeqOrTupleOrTupleStruct::'):
        return ('SEQ', c.rsplit('::', 1)[1])
    if c.startswith('ser::serializer::struct_or_map::SerializeMapAsRecordOrMapOrDuration::') or \
            c.startswith('ser::serializer::struct_or_map::SerializeStructAsRecordOrMapOrDuration::'):
        return ('REC', c.rsplit('::', 1)[1])
    if c.startswith('<ser::serializer::DatumSerializer as serde_core::ser::Serializer>::'):
        return ('FWD', c.rsplit('::', 1)[1])
    if c.startswith('ser::serializer::DatumSerializer::serialize_'):
        return ('FWD', c.rsplit('::', 1)[1])
    if call_matches(t, ['serde_core::ser::Serialize::serialize']) and any('DatumSerializer<' in ty for ty in t.get('arg_tys', [])):
        return ('VALUE',)
    if call_matches(t, ['::check_allowed_slow_sequence_to_bytes']):
        return ('FLAGCHECK',)
    if writer_touching(t):
        # passing the state to the type's own constructor helpers is classified above; anything else is unknown
        if transparent(t):
            return None
        return ('UNCLASSIFIED', c)
    return None


def region_tokens(body, blocks, facts, _depth=0):
    """[(token, body, bb, term)] for the region, descending into closures built in it and into private helpers
    that take the serializer state"""
    out = []
    for b, bb, t in calls_in(body, blocks, facts):
        tok = classify(b, bb, t)
        if tok is not None and tok[0] == 'UNCLASSIFIED' and _depth < 2:
            cb = facts.bodies.get(cname(t))
            if cb is not None and (cb.id.startswith('ser::') or cb.id.startswith('<ser::')) and cb is not body:
                out.extend(region_tokens(cb, cb.live_blocks(), facts, _depth + 1))
                continue
        if tok is not None:
            out.append((tok, b, bb, t))
    return out


def datum_serializer_bodies(facts):
    """bodies (not closures) that are methods of DatumSerializer: serde entry points and inherent helpers"""
    out = {}
    for b in facts.body_list:
        if b.j['kind'] == 'closure':
            continue
        if b.j.get('self_adt') == DS:
            out[b.name] = b
    return out


def matrix(facts):
    """{fn name: [(variants, region, tokens)]} for every DatumSerializer method (and closures of
    serialize_struct_or_struct_variant) that matches on the schema node."""
    res = {}
    bodies = datum_serializer_bodies(facts)
    todo = list(bodies.items())
    # closures that themselves switch on the schema node (serialize_struct_or_struct_variant's closure)
    for name, b in list(bodies.items()):
        for cb in facts.closures_of(b):
            if cb.switches_on_adt(SCHEMA_NODE):
                todo.append((name + '::' + cb.id.rsplit('::', 1)[1], cb))
    for name, b in todo:
        regs = enum_regions(b, SCHEMA_NODE)
        if not regs:
            continue
        cells = []
        for r in regs:
            toks = region_tokens(b, r.blocks, facts)
            cells.append((r.variants, r, toks))
        res[name] = (b, cells)
    return res
