#!/bin/sh
# usage: extract.sh <repo dir> <out dir> <target dir> <cargo feature args...>
# Runs the fact extractor over the workspace at <repo dir>.
set -e
REPO="$1"; OUT="$2"; TGT="$3"; shift 3
SYSROOT=$(rustc +nightly --print sysroot)
mkdir -p "$OUT"
rm -f "$OUT"/*.json
# cargo's freshness cache would skip the wrapper: drop the members' fingerprints
rm -rf "$TGT"/debug/.fingerprint/serde_avro_fast-* "$TGT"/debug/.fingerprint/serde_avro_derive-* "$TGT"/debug/.fingerprint/serde_avro_derive_macros-* 2>/dev/null || true
cd "$REPO"
CARGO_NET_OFFLINE=true LD_LIBRARY_PATH="$SYSROOT/lib" RUSTFLAGS="-Zmir-opt-level=0 -Awarnings" \
  RUSTC_WORKSPACE_WRAPPER=/verif/driver/target/debug/factgen SAVF_OUT="$OUT" CARGO_TARGET_DIR="$TGT" \
  cargo +nightly check --offline --workspace "$@"
