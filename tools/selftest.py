#!/usr/bin/env python3
"""selftest.py [--jobs N] [--only PREFIX]
Runs every mutants/break/<PROP>-*.diff against <PROP> (expected: caught, exit 1) and every mutants/benign/*.diff
against all claimed properties (expected: silent, exit 0).  Static analysis of scratch copies only; nothing is executed.
Writes mutants/SELFTEST.json and prints a summary.  Exit 0 iff no breaking mutant is missed and no benign one alarms."""
import concurrent.futures as cf, glob, json, os, re, shutil, subprocess, sys, tempfile, threading
V = os.path.dirname(os.path.dirname(os.path.abspath(__file__)))
jobs = 6
only = None
a = sys.argv[1:]
while a:
    x = a.pop(0)
    if x == '--jobs':
        jobs = int(a.pop(0))
    elif x == '--only':
        only = a.pop(0)
claimed = [c['property_id'] for c in json.load(open(os.path.join(V, 'MANIFEST.json')))['checks']]
tasks = []
for p in sorted(glob.glob(os.path.join(V, 'mutants', 'break', '*.diff'))):
    name = os.path.basename(p)[:-5]
    prop = name.split('-')[0]
    if prop in claimed and (only is None or name.startswith(only)):
        tasks.append(('break', name, p, [prop]))
for p in sorted(glob.glob(os.path.join(V, 'mutants', 'benign', '*.diff'))):
    name = os.path.basename(p)[:-5]
    if only is None or name.startswith(only) or only == 'benign':
        tasks.append(('benign', name, p, claimed))
slots = list(range(jobs))
lock = threading.Lock()


def run(task):
    kind, name, patch, props = task
    with lock:
        slot = slots.pop()
    try:
        d = tempfile.mkdtemp(prefix='savf-st.')
        try:
            subprocess.run(['rsync', '-a', '--exclude', 'target', '--exclude', '.git', '/repo/', d + '/repo/'], check=True)
            r = subprocess.run(['patch', '-p1', '--no-backup-if-mismatch', '-s', '-i', patch], cwd=d + '/repo', stdout=subprocess.PIPE, stderr=subprocess.STDOUT, text=True)
            if r.returncode != 0:
                return (kind, name, {'patch': 'failed'}, r.stdout[-300:])
            res = {}
            keys = {}
            env = dict(os.environ, SAVF_TARGET='target-w%d' % slot)
            for p in props:
                rr = subprocess.run([os.path.join(V, 'check'), p, '--repo', d + '/repo', '--no-evidence'], stdout=subprocess.PIPE, stderr=subprocess.STDOUT, text=True, env=env)
                # exit 1 counts only with its VIOLATION line: a crash of the checker is not a detection
                res[p] = rr.returncode if not (rr.returncode == 1 and 'VIOLATION property=' not in rr.stdout) else 3
                keys[p] = re.findall(r'^  key    (\S+)', rr.stdout, re.M)[:6]
            return (kind, name, res, keys)
        finally:
            shutil.rmtree(d, ignore_errors=True)
    finally:
        with lock:
            slots.append(slot)


out = {'break': {}, 'benign': {}}
bad = 0
with cf.ThreadPoolExecutor(max_workers=jobs) as ex:
    for kind, name, res, keys in ex.map(run, tasks):
        out[kind][name] = {'exit': res, 'keys': keys}
        if kind == 'break':
            ok = list(res.values()) == [1]
            if not ok:
                bad += 1
            print('%-7s %-60s %s' % ('caught' if ok else 'MISSED', name, res), flush=True)
        else:
            alarms = {p: c for p, c in res.items() if c != 0}
            if alarms:
                bad += 1
            print('%-7s %-60s %s' % ('silent' if not alarms else 'ALARM', name, alarms or ''), flush=True)
sp = os.path.join(V, 'mutants', 'SELFTEST.json')
if only is not None and os.path.exists(sp):
    # partial run: merge into the last full record instead of replacing it
    try:
        full = json.load(open(sp))
        for k in ('break', 'benign'):
            full.setdefault(k, {}).update(out[k])
        json.dump(full, open(sp, 'w'), indent=1)
    except ValueError:
        json.dump(out, open(sp, 'w'), indent=1)
else:
    json.dump(out, open(sp, 'w'), indent=1)
nb = len(out['break']); nk = sum(1 for v in out['break'].values() if list(v['exit'].values()) == [1])
ng = len(out['benign']); ns = sum(1 for v in out['benign'].values() if all(c == 0 for c in v['exit'].values()))
print('breaking: %d/%d caught; benign: %d/%d silent' % (nk, nb, ns, ng))
# the per-worker cargo target directories are a cache for this run only (several GB each): drop them
import glob, shutil
for d in glob.glob(os.path.join(V, '.work', 'target-w*')):
    shutil.rmtree(d, ignore_errors=True)
sys.exit(1 if bad else 0)
