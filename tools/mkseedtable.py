#!/usr/bin/env python3
"""Rewrite the table of DESIGN.md 9.3 from seeded/RESULTS.json (written by tools/seedtest.py)."""
import json, re
V = '/verif'
res = json.load(open(V + '/seeded/RESULTS.json'))
rows = []
for sid in sorted(res):
    own = sid.split('-')[0]
    r = res[sid]
    caught = r.get(own, {}).get('exit') == 1
    others = [p for p in sorted(r) if p != own and r[p].get('exit') == 1]
    first = (r.get(own, {}).get('keys') or ['—'])[0] if caught else '—'
    rows.append('| %s | %s | %s | `%s` |' % (sid, 'caught' if caught else 'MISSED', ', '.join(others) or '—', first))
s = open(V + '/DESIGN.md').read()
hdr = '| seed | own check | also caught by | rule that fires first |\n|------|-----------|----------------|------------------------|\n'
i = s.index(hdr) + len(hdr)
j = i
while s[j:j + 3] == '| C':
    j = s.index('\n', j) + 1
s = s[:i] + '\n'.join(rows) + '\n' + s[j:]
open(V + '/DESIGN.md', 'w').write(s)
n = len(rows)
print('%d seeds; own check caught %d; also caught by another check %d' % (n, sum(1 for x in rows if '| caught |' in x), sum(1 for x in rows if not x.split('|')[3].strip() == '—')))
