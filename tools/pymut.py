#!/usr/bin/env python3
"""pymut.py <name> <relpath> <old> <new> PROP [PROP...]
Creates /verif/mutants/break/<name>.diff from a single textual replacement in /repo's file (must match exactly once),
then runs tools/trymut.sh on it."""
import difflib, os, subprocess, sys
name, rel, old, new = sys.argv[1:5]
props = sys.argv[5:]
src = open('/repo/' + rel).read()
if src.count(old) != 1:
    sys.exit('pattern matches %d times' % src.count(old))
dst = src.replace(old, new)
d = ''.join(difflib.unified_diff(src.splitlines(True), dst.splitlines(True), 'a/' + rel, 'b/' + rel))
kind = 'benign' if name.startswith('benign-') else 'break'
out = '/verif/mutants/%s/%s.diff' % (kind, name)
open(out, 'w').write(d)
sys.exit(subprocess.call(['/verif/tools/trymut.sh', out] + props))
