#!/usr/bin/env python3
"""Regenerates MANIFEST.json from the table below + properties.jsonl (claimed = has a rule module)."""
import json, os
V = os.path.dirname(os.path.dirname(os.path.abspath(__file__)))
props = [json.loads(l) for l in open(os.path.join(V, 'properties.jsonl'))]
CLAIMS = json.load(open(os.path.join(V, 'tools', 'claims.json')))
checks = []
na = []
for p in props:
    pid = p['id']
    c = CLAIMS.get(pid)
    if c and os.path.exists(os.path.join(V, 'savf', 'rules', pid.lower() + '.py')) and not c.get('not_applicable'):
        checks.append({
            'property_id': pid,
            'quick_cmd': './check %s --tier quick' % pid,
            'thorough_cmd': './check %s --tier thorough' % pid,
            'evidence_file': 'evidence/%s.json' % pid,
            'replay_cmd_template': './check %s --replay {path}' % pid,
            'engine': 'savf',
            'level_claimed': {'category': 'other', 'text': c['text'], 'design_ref': c['design_ref']},
            'level_note': c['note'],
            'technique': c['technique'],
        })
    else:
        na.append({'property_id': pid, 'reason': (c or {}).get('not_applicable') or 'check not built yet (work in progress; see DESIGN.md section 4)'})
m = {
    'version': 1,
    'setup_cmd': './setup.sh',
    'hooks': {'guard': '--cfg serde_avro_fast_verif',
              'enable': 'none needed: static analysis reads /repo as built (cargo +nightly check --all-features with a rustc_private fact extractor as RUSTC_WORKSPACE_WRAPPER)',
              'baseline_off_cmd': 'cd /repo && cargo nextest run --workspace --no-fail-fast --offline || cargo test --workspace --no-fail-fast --offline',
              'source_commits': [], 'add_only': True},
    'engines': [{'name': 'savf', 'path': 'check', 'serves_properties': [c['property_id'] for c in checks],
                 'kind_free_text': 'static analysis: rustc_private MIR/HIR fact extractor (driver/) + Python rule engine (savf/): dispatch matrices from match-arm regions, provenance, dominance guards, closed inventories, table agreement; compile_fail witnesses (witness/)'}],
    'checks': checks,
    'notes': 'All claims are structural necessary conditions decided from the source of /repo on every run (nothing of serde_avro_fast is executed); see DESIGN.md. fix: commits in /repo: see known_findings.json (fixed entries).',
    'not_applicable': na,
}
json.dump(m, open(os.path.join(V, 'MANIFEST.json'), 'w'), indent=1)
print('claimed', [c['property_id'] for c in checks])
