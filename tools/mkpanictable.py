#!/usr/bin/env python3
"""mkpanictable.py: records, on the reviewed tree, the signature of every panic-capable site that the reviewed tables of
C04 / C17 / C19 accept by function name, into savf/tables/panic_signatures.json (see inventory.ReviewedMatcher).
Run only on a reviewed tree."""
import importlib, json, os, sys
V = os.path.dirname(os.path.dirname(os.path.abspath(__file__)))
sys.path.insert(0, V)
from savf import engine
d, th, _ = engine.extract('/repo', 'all')
out = {}
for prop in ('C04', 'C17', 'C19'):
    ctx = engine.Ctx(prop, '/repo', 'quick', 'all', d)
    mod = importlib.import_module('savf.rules.' + prop.lower())
    mod.run(ctx)
    m = getattr(ctx, 'panic_matcher', None)
    out[prop] = {k: sorted(set(v)) for k, v in sorted(m.recorded.items())} if m else {}
p = os.path.join(V, 'savf', 'tables', 'panic_signatures.json')
json.dump(out, open(p, 'w'), indent=1, sort_keys=True)
print('wrote', p, {k: len(v) for k, v in out.items()})
