#!/usr/bin/env python3
"""mkappendix.py: rewrites appendix G of DESIGN.md (rule catalogue) from the docstrings of savf/rules/*.py"""
import importlib, os, sys
V = os.path.dirname(os.path.dirname(os.path.abspath(__file__)))
sys.path.insert(0, V)
out = []
for i in range(1, 21):
    m = importlib.import_module('savf.rules.c%02d' % i)
    out.append('### C%02d\n\n```\n%s\n```\n' % (i, (m.__doc__ or '').strip()))
m = importlib.import_module('savf.rules.c20gen')
out.append('### C20 (macro side, `c20gen.py`)\n\n```\n%s\n```\n' % m.__doc__.strip())
p = os.path.join(V, 'DESIGN.md')
s = open(p).read()
head = '## G. Rule catalogue as built (the docstring of each rule module)\n\n'
i = s.index(head)
s = s[:i] + head + '\n'.join(out)
open(p, 'w').write(s)
print('appendix G rewritten: %d modules' % len(out))
