#!/bin/bash
# usage: trymut.sh <patch.diff> <PROP> [<PROP>...]
# Applies a patch to a scratch copy of /repo (outside /repo and /verif), runs the given checks against the copy
# (static analysis only; nothing is executed), removes the copy.  Exit status: 0 if every check exited 1 (caught).
set -u
PATCH=$(readlink -f "$1"); shift
D=$(mktemp -d /tmp/savf-mut.XXXXXX)
trap 'rm -rf "$D"' EXIT
rsync -a --exclude target --exclude .git /repo/ "$D/repo/"
( cd "$D/repo" && patch -p1 --no-backup-if-mismatch -s < "$PATCH" ) || { echo "PATCH-FAILED $PATCH"; exit 3; }
rc=0
for P in "$@"; do
  out=$(/verif/check "$P" --repo "$D/repo" --no-evidence 2>&1)
  code=$?
  if [ $code -eq 1 ] && ! echo "$out" | grep -q "^VIOLATION property="; then code=3; echo "$out" | tail -3; fi   # checker crash: not a detection
  echo "== $P exit=$code"
  echo "$out" | grep -E "^(VIOLATION|INCONCLUSIVE|  key|  found|KNOWN)" | head -${TRYMUT_LINES:-12}
  [ $code -eq 1 ] || rc=1
done
exit $rc
