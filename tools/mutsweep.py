#!/usr/bin/env python3
"""mutsweep.py gen <outdir> [--per-file N] [--seed S] [--src dir,dir]  : write single-edit operator mutants of /repo's library sources
   mutsweep.py run <outdir> [--jobs N] [--tests]            : run every claimed quick check on each mutant (scratch copies)

A blind-spot finder for the rules, not a check: it applies mechanical, single-token mutation operators (comparison
flips, boundary shifts, && / ||, negation removal, true/false, min/max, dropped `...?;` statements, integer constants
+1) to the library sources, analyses each mutant with all claimed checks, and lists the mutants NO check reports.
With --tests the survivors are then run against the repository's own test suite (scratch copy, scratch target dir):
a mutant that survives the checks AND the tests is either equivalent / outside every property, or a gap in the rules -
those are the ones to read (results in <outdir>/RESULTS.json, survivors in <outdir>/SURVIVORS.md).
Nothing here decides a property; the checks it drives never execute the crate; the test run only classifies survivors.
"""
import concurrent.futures as cf, glob, json, os, random, re, shutil, subprocess, sys, tempfile, threading
V = os.path.dirname(os.path.dirname(os.path.abspath(__file__)))
REPO = '/repo'
SRC_DIRS = ['serde_avro_fast/src']

OPS = [
    ('lt-le', re.compile(r' < '), ' <= '),
    ('le-lt', re.compile(r' <= '), ' < '),
    ('gt-ge', re.compile(r' > '), ' >= '),
    ('ge-gt', re.compile(r' >= '), ' > '),
    ('eq-ne', re.compile(r' == '), ' != '),
    ('ne-eq', re.compile(r' != '), ' == '),
    ('and-or', re.compile(r' && '), ' || '),
    ('or-and', re.compile(r' \|\| '), ' && '),
    ('plus1', re.compile(r' \+ 1\b'), ' + 2'),
    ('minus1', re.compile(r' - 1\b'), ' - 2'),
    ('plus-minus', re.compile(r' \+ (?=[a-z_(])'), ' - '),
    ('not-drop', re.compile(r'\bif !(?=[a-z_(])'), 'if '),
    ('true-false', re.compile(r'\btrue\b'), 'false'),
    ('false-true', re.compile(r'\bfalse\b'), 'true'),
    ('min-max', re.compile(r'\.min\('), '.max('),
    ('max-min', re.compile(r'\.max\('), '.min('),
    ('int+1', re.compile(r'(?<![\w.\[])(\d{1,6})(?![\w.\]])'), None),
    ('drop-try-stmt', re.compile(r'^\s*[a-zA-Z_][\w:.]*(\(|\.)[^=]*\)\?;\s*$'), ''),
    ('some-none', re.compile(r'=> Some\(([a-z_]+)\),'), '=> None,'),
    ('is_some-is_none', re.compile(r'\.is_some\(\)'), '.is_none()'),
    ('is_none-is_some', re.compile(r'\.is_none\(\)'), '.is_some()'),
    ('is_empty-not', re.compile(r'(?<!!)\b([a-z_.]+)\.is_empty\(\)'), None),
    ('usize-wrap', re.compile(r'\.checked_(add|sub|mul)\(([^()]*)\)\s*\.ok_or'), None),
]


def code_lines(text):
    """indices of lines that are code: not comments, not attributes, not inside #[cfg(test)] mod, not in string-only lines"""
    lines = text.split('\n')
    ok = []
    in_test = False
    depth = 0
    test_depth = None
    block_comment = False
    for i, l in enumerate(lines):
        s = l.strip()
        if block_comment:
            if '*/' in s:
                block_comment = False
            continue
        if s.startswith('/*'):
            if '*/' not in s:
                block_comment = True
            continue
        if test_depth is None and s.startswith('#[cfg(test)]'):
            test_depth = -1   # armed: next item with a brace
        if test_depth == -1 and '{' in s and not s.startswith('#'):
            test_depth = depth
        opened = l.count('{') - l.count('}')
        if test_depth is not None and test_depth >= 0:
            depth += opened
            if depth <= test_depth:
                test_depth = None
            continue
        depth += opened
        if test_depth == -1:
            continue
        if not s or s.startswith('//') or s.startswith('#[') or s.startswith('#!['):
            continue
        if s.startswith('"') or s.startswith('\\') or s.startswith('use ') or s.startswith('pub use '):
            continue
        ok.append(i)
    return lines, ok


def strip_strings(l):
    """mask string literals and trailing comments so operators do not fire inside them"""
    out = []
    in_s = False
    i = 0
    while i < len(l):
        c = l[i]
        if in_s:
            if c == '\\':
                out.append('__'); i += 2; continue
            if c == '"':
                in_s = False
                out.append('"')
            else:
                out.append('_')
        else:
            if c == '"':
                in_s = True
                out.append('"')
            elif l.startswith('//', i):
                out.append('_' * (len(l) - i))
                break
            else:
                out.append(c)
        i += 1
    return ''.join(out)


def gen(outdir, per_file, seed):
    rnd = random.Random(seed)
    os.makedirs(outdir, exist_ok=True)
    for f in glob.glob(os.path.join(outdir, '*.diff')):
        os.remove(f)
    files = []
    for d in SRC_DIRS:
        for root, _, fs in os.walk(os.path.join(REPO, d)):
            for f in fs:
                if f.endswith('.rs'):
                    files.append(os.path.relpath(os.path.join(root, f), REPO))
    files.sort()
    index = []
    n = 0
    for rel in files:
        text = open(os.path.join(REPO, rel)).read()
        lines, ok = code_lines(text)
        cands = []
        for i in ok:
            masked = strip_strings(lines[i])
            if 'debug_assert' in masked or 'unreachable' in masked:
                continue
            for name, rx, rep in OPS:
                for m in rx.finditer(masked):
                    if name == 'int+1':
                        new = lines[i][:m.start(1)] + str(int(m.group(1)) + 1) + lines[i][m.end(1):]
                    elif name == 'is_empty-not':
                        new = lines[i][:m.start()] + '!' + lines[i][m.start():]
                    elif name == 'usize-wrap':
                        continue
                    elif name == 'drop-try-stmt':
                        new = None
                    elif name == 'some-none':
                        new = lines[i][:m.start()] + '=> { let _ = %s; None }' % m.group(1) + lines[i][m.end():]
                    else:
                        new = lines[i][:m.start()] + rep + lines[i][m.end():]
                    cands.append((name, i, new))
        rnd.shuffle(cands)
        # spread: at most 3 per operator per file, per_file in total
        seen = {}
        picked = []
        for c in cands:
            if seen.get(c[0], 0) >= 3:
                continue
            seen[c[0]] = seen.get(c[0], 0) + 1
            picked.append(c)
            if len(picked) >= per_file:
                break
        for name, i, new in picked:
            nl = list(lines)
            if new is None:
                del nl[i]
            else:
                nl[i] = new
            with tempfile.TemporaryDirectory() as td:
                a = os.path.join(td, 'a'); b = os.path.join(td, 'b')
                os.makedirs(os.path.dirname(os.path.join(a, rel))); os.makedirs(os.path.dirname(os.path.join(b, rel)))
                open(os.path.join(a, rel), 'w').write(text)
                open(os.path.join(b, rel), 'w').write('\n'.join(nl))
                r = subprocess.run(['diff', '-u', os.path.join('a', rel), os.path.join('b', rel)], cwd=td, stdout=subprocess.PIPE, text=True)
            n += 1
            mid = 'm%04d' % n
            open(os.path.join(outdir, mid + '.diff'), 'w').write(r.stdout)
            index.append({'id': mid, 'op': name, 'file': rel, 'line': i + 1, 'old': lines[i].strip(), 'new': (new or '(deleted)').strip()})
    json.dump(index, open(os.path.join(outdir, 'INDEX.json'), 'w'), indent=1)
    print('generated', n, 'mutants over', len(files), 'files')


def run(outdir, jobs, tests):
    claimed = [c['property_id'] for c in json.load(open(os.path.join(V, 'MANIFEST.json')))['checks']]
    index = json.load(open(os.path.join(outdir, 'INDEX.json')))
    resp = os.path.join(outdir, 'RESULTS.json')
    results = json.load(open(resp)) if os.path.exists(resp) else {}
    slots = list(range(jobs))
    lock = threading.Lock()

    def one(ent):
        mid = ent['id']
        if mid in results and (not tests or results[mid].get('verdict') != 'survived-checks'):
            return mid, results[mid]
        with lock:
            slot = slots.pop()
        try:
            d = '/tmp/savf-sweep-w%d' % slot
            os.makedirs(d, exist_ok=True)
            subprocess.run(['rsync', '-a', '--delete', '--exclude', 'target', '--exclude', '.git', REPO + '/', d + '/repo/'], check=True)
            r = subprocess.run(['patch', '-p1', '--no-backup-if-mismatch', '-s', '-i', os.path.join(outdir, mid + '.diff')], cwd=d + '/repo', stdout=subprocess.PIPE, stderr=subprocess.STDOUT, text=True)
            if r.returncode != 0:
                return mid, {'verdict': 'patch-failed'}
            res = results.get(mid)
            if not res or res.get('verdict') != 'survived-checks':
                env = dict(os.environ, SAVF_TARGET='target-sw%d' % slot)
                hits = {}
                verdict = 'survived-checks'
                for p in claimed:
                    rr = subprocess.run([os.path.join(V, 'check'), p, '--repo', d + '/repo', '--no-evidence'], stdout=subprocess.PIPE, stderr=subprocess.STDOUT, text=True, env=env)
                    if rr.returncode == 2:
                        verdict = 'does-not-build'
                        break
                    if rr.returncode == 1:
                        if 'VIOLATION property=' in rr.stdout:
                            hits[p] = re.findall(r'^  key    (\S+)', rr.stdout, re.M)[:3]
                        else:
                            hits[p] = ['CRASH']
                if hits and verdict != 'does-not-build':
                    verdict = 'caught'
                res = {'verdict': verdict, 'hits': hits}
            if tests and res['verdict'] == 'survived-checks':
                env = dict(os.environ, CARGO_TARGET_DIR='/tmp/savf-sweep-tgt%d' % slot, CARGO_NET_OFFLINE='true')
                rr = subprocess.run(['cargo', 'nextest', 'run', '--workspace', '--no-fail-fast', '--offline'], cwd=d + '/repo', stdout=subprocess.PIPE, stderr=subprocess.STDOUT, text=True, env=env)
                m = re.search(r'(\d+) passed', rr.stdout)
                failed = re.findall(r'^\s+FAIL \[[^\]]*\] (\S+ \S+)', rr.stdout, re.M)
                if rr.returncode == 0 and m and m.group(1) == '140':
                    res['verdict'] = 'SURVIVED'
                elif 'error: could not compile' in rr.stdout or 'error[E' in rr.stdout:
                    res['verdict'] = 'does-not-build'
                else:
                    res['verdict'] = 'killed-by-tests'
                    res['failed_tests'] = sorted(set(failed))[:4]
            return mid, res
        finally:
            with lock:
                slots.append(slot)

    with cf.ThreadPoolExecutor(max_workers=jobs) as ex:
        futs = {ex.submit(one, e): e for e in index}
        k = 0
        for fu in cf.as_completed(futs):
            e = futs[fu]
            mid, res = fu.result()
            results[mid] = res
            k += 1
            print('%-5s %-16s %-14s %s:%d  %s' % (mid, res['verdict'], e['op'], e['file'].replace('serde_avro_fast/src/', ''), e['line'], ','.join(res.get('hits', {}))), flush=True)
            if k % 10 == 0:
                json.dump(results, open(resp, 'w'), indent=1)
    json.dump(results, open(resp, 'w'), indent=1)
    tally = {}
    for r in results.values():
        tally[r['verdict']] = tally.get(r['verdict'], 0) + 1
    print(tally)
    with open(os.path.join(outdir, 'SURVIVORS.md'), 'w') as fh:
        fh.write('# mutants no check reported (%s)\n\n' % json.dumps(tally))
        for e in index:
            r = results.get(e['id'], {})
            if r.get('verdict') in ('SURVIVED', 'survived-checks', 'killed-by-tests'):
                fh.write('- %s [%s] %s %s:%d\n    - `%s`\n    + `%s`\n    %s\n' % (e['id'], r['verdict'], e['op'], e['file'], e['line'], e['old'], e['new'], ', '.join(r.get('failed_tests', []))))
    for dd in glob.glob(os.path.join(V, '.work', 'target-sw*')) + glob.glob('/tmp/savf-sweep-w*'):
        shutil.rmtree(dd, ignore_errors=True)


if __name__ == '__main__':
    a = sys.argv[1:]
    mode, outdir = a[0], a[1]
    opts = dict(zip(a[2::2], a[3::2])) if '--tests' not in a else dict(zip([x for x in a[2:] if x != '--tests'][0::2], [x for x in a[2:] if x != '--tests'][1::2]))
    if '--src' in opts:
        SRC_DIRS[:] = opts['--src'].split(',')
    if mode == 'gen':
        gen(outdir, int(opts.get('--per-file', 12)), int(opts.get('--seed', 1)))
    else:
        run(outdir, int(opts.get('--jobs', 6)), '--tests' in a)
