#!/bin/bash
# runall.sh [quick|thorough|configs] : runs every claimed check on /repo, rewriting evidence/*.json; prints one line each.
# configs = the thorough tier (all 8 feature configurations, witnesses) without the per-property mutant self-test and
# without rewriting evidence: the fast way to see that a rule edit holds under every configuration.
T=${1:-quick}
EXTRA=""
if [ "$T" = configs ]; then T=thorough; export SAVF_NO_SELFTEST=1; EXTRA="--no-evidence"; fi
cd "$(dirname "$0")/.."
rc=0
for p in $(python3 -c "import json; print(' '.join(c['property_id'] for c in json.load(open('MANIFEST.json'))['checks']))"); do
  out=$(./check $p --tier $T $EXTRA 2>&1); code=$?
  echo "$out" | grep -E "^(VIOLATION|INCONCLUSIVE|SELFTEST-NOTE|C[0-9]+:)" | grep -v "^KNOWN"
  [ $code -eq 0 ] || rc=1
done
exit $rc
