#!/bin/bash
# runall.sh [quick|thorough] : runs every claimed check on /repo, rewriting evidence/*.json; prints one line each.
T=${1:-quick}
cd "$(dirname "$0")/.."
rc=0
for p in $(python3 -c "import json; print(' '.join(c['property_id'] for c in json.load(open('MANIFEST.json'))['checks']))"); do
  out=$(./check $p --tier $T 2>&1); code=$?
  echo "$out" | grep -E "^(VIOLATION|INCONCLUSIVE|SELFTEST-NOTE|C[0-9]+:)" | grep -v "^KNOWN"
  [ $code -eq 0 ] || rc=1
done
exit $rc
