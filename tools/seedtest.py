#!/usr/bin/env python3
"""seedtest.py [--jobs N]: runs, for every confirmed seeded change /verif/seeded/<PROP>-<X>/patch.diff, the check of
its own property and of all other claimed properties on a scratch copy (static analysis only).  Writes
seeded/RESULTS.json and seeded/RESULTS.md (which checks catch which changes)."""
import concurrent.futures as cf, glob, json, os, re, shutil, subprocess, sys, tempfile, threading
V = os.path.dirname(os.path.dirname(os.path.abspath(__file__)))
jobs = 8
if '--jobs' in sys.argv:
    jobs = int(sys.argv[sys.argv.index('--jobs') + 1])
claimed = [c['property_id'] for c in json.load(open(os.path.join(V, 'MANIFEST.json')))['checks']]
seeds = sorted(d for d in glob.glob(os.path.join(V, 'seeded', 'C*-*')) if os.path.exists(os.path.join(d, 'patch.diff')))
slots = list(range(jobs)); lock = threading.Lock()


def run(d):
    sid = os.path.basename(d)
    with lock:
        slot = slots.pop()
    try:
        tmp = tempfile.mkdtemp(prefix='savf-seed.')
        try:
            subprocess.run(['rsync', '-a', '--exclude', 'target', '--exclude', '.git', '/repo/', tmp + '/repo/'], check=True)
            r = subprocess.run(['patch', '-p1', '--no-backup-if-mismatch', '-s', '-i', os.path.join(d, 'patch.diff')], cwd=tmp + '/repo', stdout=subprocess.PIPE, stderr=subprocess.STDOUT, text=True)
            if r.returncode != 0:
                return sid, {'patch': 'failed: ' + r.stdout[-200:]}
            env = dict(os.environ, SAVF_TARGET='target-w%d' % slot)
            res = {}
            for p in claimed:
                rr = subprocess.run([os.path.join(V, 'check'), p, '--repo', tmp + '/repo', '--no-evidence'], stdout=subprocess.PIPE, stderr=subprocess.STDOUT, text=True, env=env)
                res[p] = {'exit': rr.returncode if not (rr.returncode == 1 and 'VIOLATION property=' not in rr.stdout) else 3, 'keys': re.findall(r'^  key    (\S+)', rr.stdout, re.M)[:5]}
            return sid, res
        finally:
            shutil.rmtree(tmp, ignore_errors=True)
    finally:
        with lock:
            slots.append(slot)


out = {}
with cf.ThreadPoolExecutor(max_workers=jobs) as ex:
    for sid, res in ex.map(run, seeds):
        out[sid] = res
        own = sid.split('-')[0]
        caught = [p for p, v in res.items() if isinstance(v, dict) and v.get('exit') == 1]
        print('%-8s own(%s)=%s caught by %s' % (sid, own, 'CAUGHT' if own in caught else 'missed', caught), flush=True)
json.dump(out, open(os.path.join(V, 'seeded', 'RESULTS.json'), 'w'), indent=1)
with open(os.path.join(V, 'seeded', 'RESULTS.md'), 'w') as f:
    f.write('# Seeded changes (written by independent sub-agents from the property text only) vs. the checks\n\n')
    f.write('| seed | what it does (author\'s words, abridged) | own check | caught by | first violated keys |\n|---|---|---|---|---|\n')
    for sid in sorted(out):
        res = out[sid]
        try:
            meta = json.load(open(os.path.join(V, 'seeded', sid, 'meta.json')))
        except Exception:
            meta = {}
        what = (meta.get('what') or '').replace('\n', ' ').replace('|', '/')[:260]
        own = sid.split('-')[0]
        caught = [p for p, v in res.items() if isinstance(v, dict) and v.get('exit') == 1]
        keys = []
        for p in ([own] if own in caught else []) + [c for c in caught if c != own]:
            keys += res[p]['keys'][:2]
        f.write('| %s | %s | %s | %s | %s |\n' % (sid, what, 'caught' if own in caught else ('not claimed' if own not in claimed else 'MISSED'), ', '.join(caught) or '-', '<br>'.join(keys[:4])))
# the per-worker cargo target directories are a cache for this run only (several GB each): drop them
import glob, shutil
for d in glob.glob('/verif/.work/target-w*'):
    shutil.rmtree(d, ignore_errors=True)
