#!/usr/bin/env python3
"""mkfieldtable.py: freezes the reviewed tree's non-public struct / variant fields (name and type, in declaration
order) into savf/tables/private_fields.json.  The analysis core uses it to make the rules rename-proof: if the tree
under analysis declares the same ADT with the same field *types in the same order* but other names, the facts are read
with the reviewed names (see core.apply_field_aliases).  Run it only on a reviewed tree."""
import json, os, sys
V = os.path.dirname(os.path.dirname(os.path.abspath(__file__)))
sys.path.insert(0, V)
from savf import engine
out = {}
d, th, _ = engine.extract('/repo', 'all')
for crate in ('serde_avro_fast', 'serde_avro_derive'):
    j = json.load(open(os.path.join(d, crate + '.json')))
    tab = {}
    for a in j['adts']:
        vs = {}
        for v in a['variants']:
            if v['fields'] and any(f['vis'] != 'pub' for f in v['fields']) and not all(f['name'].isdigit() for f in v['fields']):
                vs[v['name']] = [[f['name'], f['ty'], f['vis'] == 'pub'] for f in v['fields']]
        if vs:
            tab[a['path']] = vs
    out[crate] = tab
p = os.path.join(V, 'savf', 'tables', 'private_fields.json')
json.dump(out, open(p, 'w'), indent=1, sort_keys=True)
print('wrote', p, {k: len(v) for k, v in out.items()})
