#!/usr/bin/env python3
"""mkadttable.py: freezes the reviewed tree's non-public ADTs (path, kind, variants with field types) into
savf/tables/private_adts.json, used by core.type_aliases to read a renamed private type under its reviewed name.
Run only on a reviewed tree."""
import json, os, sys
V = os.path.dirname(os.path.dirname(os.path.abspath(__file__)))
sys.path.insert(0, V)
from savf import engine
d, th, _ = engine.extract('/repo', 'all')
out = {}
for crate in ('serde_avro_fast', 'serde_avro_derive'):
    j = json.load(open(os.path.join(d, crate + '.json')))
    tab = {}
    for a in j['adts']:
        e = {'kind': a['kind'], 'variants': [[v['name'] if a['kind'] == 'enum' else '', [f['ty'] for f in v['fields']]] for v in a['variants']]}
        if a.get('vis') == 'pub':
            # public types are listed too, flagged: one that MOVES to another module under the same name (re-exported at
            # its old path) is read under the reviewed path; a public type is never matched under another name
            e['pub'] = True
        tab[a['path']] = e
    out[crate] = tab
p = os.path.join(V, 'savf', 'tables', 'private_adts.json')
json.dump(out, open(p, 'w'), indent=1, sort_keys=True)
print('wrote', p, {k: len(v) for k, v in out.items()})
