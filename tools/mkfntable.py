#!/usr/bin/env python3
"""mkfntable.py: freezes the reviewed tree's non-public functions (path, parameter types, return type) into
savf/tables/private_fns.json.  If the tree under analysis lacks one of them but has, in the same module / impl, exactly
one non-public function with the same signature that is not itself a reviewed name, the facts are read with the reviewed
name (core.apply_fn_aliases): renaming a private function then changes no rule's anchors.  Run only on a reviewed tree."""
import json, os, sys
V = os.path.dirname(os.path.dirname(os.path.abspath(__file__)))
sys.path.insert(0, V)
from savf import engine
d, th, _ = engine.extract('/repo', 'all')
out = {}
for crate in ('serde_avro_fast', 'serde_avro_derive'):
    j = json.load(open(os.path.join(d, crate + '.json')))
    tab = {}
    for fn in j['fns']:
        if fn.get('vis') != 'pub' and '{' not in fn['path']:
            tab[fn['path']] = {'inputs': fn.get('inputs', []), 'output': fn.get('output', '')}
    out[crate] = tab
p = os.path.join(V, 'savf', 'tables', 'private_fns.json')
json.dump(out, open(p, 'w'), indent=1, sort_keys=True)
print('wrote', p, {k: len(v) for k, v in out.items()})
