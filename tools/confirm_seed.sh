#!/bin/bash
# usage: confirm_seed.sh <dir containing patch.diff demo.rs meta.json> <seed id, e.g. C12-A> [crate, default serde_avro_fast] [extra cargo test args for the demo, e.g. "--features zstandard"]
# Confirms, in a scratch copy of /repo HEAD (outside /repo and /verif): patch applies, suite green with the patch,
# demo fails with the patch and passes without it.  On success copies the seed to /verif/seeded/<id>/.
set -u
SRC=$(readlink -f "$1"); ID="$2"; CR="${3:-serde_avro_fast}"; FEAT="${4:-}"
D=$(mktemp -d /tmp/savf-confirm.XXXXXX)
export CARGO_TARGET_DIR=/tmp/savf-confirm-target
trap 'rm -rf "$D"' EXIT
rsync -a --exclude target --exclude .git /repo/ "$D/repo/"
cd "$D/repo"
patch -p1 --no-backup-if-mismatch -s < "$SRC/patch.diff" || { echo "RESULT $ID patch-does-not-apply"; exit 3; }
suite=$(cargo nextest run --workspace --no-fail-fast --offline 2>&1 | grep -E "Summary|tests run" | tail -1)
echo "suite with patch: $suite"
allf=$(cargo check --workspace --all-features --offline 2>&1 | grep -cE "^error")
cp "$SRC/demo.rs" $CR/tests/zz_demo.rs
with=$(cargo test --offline -p $CR $FEAT --test zz_demo 2>&1 | grep -E "^test result|could not compile|overflowed|SIGSEGV|SIGABRT|error: test failed" | head -2 | tr '\n' ' ')
echo "demo with patch: $with"
patch -p1 -R --no-backup-if-mismatch -s < "$SRC/patch.diff"
without=$(cargo test --offline -p $CR $FEAT --test zz_demo 2>&1 | grep -E "^test result|could not compile|error: test failed" | head -2 | tr '\n' ' ')
echo "demo without patch: $without"
ok=1
echo "$suite" | grep -q "140 passed" || ok=0
[ "$allf" = "0" ] || ok=0
echo "$with" | grep -qE "FAILED|test failed|overflowed|SIG" || ok=0
echo "$without" | grep -q "test result: ok" || ok=0
if [ $ok = 1 ]; then
  mkdir -p /verif/seeded/$ID
  cp "$SRC/patch.diff" "$SRC/demo.rs" /verif/seeded/$ID/
  python3 - "$SRC/meta.json" "/verif/seeded/$ID/meta.json" "$suite" "$with" "$without" <<'PY'
import json,sys
try: m=json.load(open(sys.argv[1]))
except Exception as e: m={'what':'(meta.json of the author unreadable: %s)'%e}
m['confirmed']={'suite_with_patch':sys.argv[3],'demo_with_patch':sys.argv[4],'demo_without_patch':sys.argv[5],
  'how':'tools/confirm_seed.sh: scratch copy of /repo HEAD, patch applied, cargo nextest (140 pass), cargo check --all-features, demo as serde_avro_fast/tests/zz_demo.rs fails; patch reverted, demo passes'}
json.dump(m,open(sys.argv[2],'w'),indent=1)
PY
  echo "RESULT $ID confirmed"
else
  echo "RESULT $ID NOT-confirmed (allfeatures errors: $allf)"
fi
