#!/usr/bin/env python3
"""stsummary.py: compact view of mutants/SELFTEST.json (missed breaking mutants, alarming benign ones with keys)"""
import json, os
V = os.path.dirname(os.path.dirname(os.path.abspath(__file__)))
d = json.load(open(os.path.join(V, 'mutants', 'SELFTEST.json')))
for k, v in sorted(d.get('break', {}).items()):
    ex = v.get('exit', {})
    if not all(x == 1 for x in ex.values()):
        print('MISSED ', k, ex)
for k, v in sorted(d.get('benign', {}).items()):
    bad = {p: x for p, x in v.get('exit', {}).items() if x != 0}
    if bad:
        print('ALARM  ', k)
        for p in bad:
            print('        ', p, bad[p], v.get('keys', {}).get(p, [])[:4])
