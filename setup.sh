#!/bin/sh
# Builds the fact extractor and warms the dependency build cache, offline, from files on disk only.
set -e
cd "$(dirname "$0")"
export CARGO_NET_OFFLINE=true
( cd driver && cargo build --offline )
python3 - <<'PY'
import sys
sys.path.insert(0, '.')
from savf import engine
d, th, fresh = engine.extract('/repo', 'all')
print('facts for tree', th, 'in', d, '(fresh)' if fresh else '(cached)')
print('derive corpus facts:', engine.extract_corpus('/repo'))
PY
