//! Type-level witnesses for C10 / C18 (run with `cargo +nightly test --doc`).
//! Each negative witness (`compile_fail`, with the expected error code where rustc emits one) is paired with a
//! compiling twin that differs only in the offending line, so that a witness whose paths are merely wrong cannot pass.
//! Nothing of serde_avro_fast is *verified by running* here: the verdict is whether the programs type-check.

/// A value borrowed from the input slice cannot outlive it.
/// ```compile_fail,E0597
/// let schema: serde_avro_fast::Schema = r#""string""#.parse().unwrap();
/// let s: &str;
/// {
///     let input = vec![6u8, b'a', b'b', b'c'];
///     s = serde_avro_fast::from_datum_slice(&input, &schema).unwrap();
/// }
/// println!("{s}");
/// ```
/// twin:
/// ```no_run
/// let schema: serde_avro_fast::Schema = r#""string""#.parse().unwrap();
/// let s: &str;
/// let input = vec![6u8, b'a', b'b', b'c'];
/// {
///     s = serde_avro_fast::from_datum_slice(&input, &schema).unwrap();
/// }
/// println!("{s}");
/// ```
pub fn borrowed_value_tied_to_input() {}

/// A deserializer configuration cannot outlive the schema it points into.
/// ```compile_fail,E0597
/// let config;
/// {
///     let schema: serde_avro_fast::Schema = r#""int""#.parse().unwrap();
///     config = serde_avro_fast::de::DeserializerConfig::new(&schema);
/// }
/// let _ = config.max_seq_size;
/// ```
/// twin:
/// ```no_run
/// let config;
/// let schema: serde_avro_fast::Schema = r#""int""#.parse().unwrap();
/// {
///     config = serde_avro_fast::de::DeserializerConfig::new(&schema);
/// }
/// let _ = config.max_seq_size;
/// ```
pub fn deserializer_config_tied_to_schema() {}

/// A serializer configuration cannot outlive the schema it points into.
/// ```compile_fail,E0597
/// let mut config;
/// {
///     let schema: serde_avro_fast::Schema = r#""int""#.parse().unwrap();
///     config = serde_avro_fast::ser::SerializerConfig::new(&schema);
/// }
/// let _ = serde_avro_fast::to_datum_vec(&1i32, &mut config);
/// ```
/// twin:
/// ```no_run
/// let mut config;
/// let schema: serde_avro_fast::Schema = r#""int""#.parse().unwrap();
/// {
///     config = serde_avro_fast::ser::SerializerConfig::new(&schema);
/// }
/// let _ = serde_avro_fast::to_datum_vec(&1i32, &mut config);
/// ```
pub fn serializer_config_tied_to_schema() {}

/// A schema cannot be dropped while a deserializer state built on it is alive.
/// ```compile_fail,E0505
/// let schema: serde_avro_fast::Schema = r#""int""#.parse().unwrap();
/// let input = [2u8];
/// let mut state = serde_avro_fast::de::DeserializerState::from_slice(&input, &schema);
/// drop(schema);
/// let _: i32 = serde::Deserialize::deserialize(state.deserializer()).unwrap();
/// ```
/// twin:
/// ```no_run
/// let schema: serde_avro_fast::Schema = r#""int""#.parse().unwrap();
/// let input = [2u8];
/// let mut state = serde_avro_fast::de::DeserializerState::from_slice(&input, &schema);
/// let _: i32 = serde::Deserialize::deserialize(state.deserializer()).unwrap();
/// drop(schema);
/// ```
pub fn schema_outlives_deserializer_state() {}

/// Reader-backed datum decoding only produces owned values.
/// ```compile_fail
/// let schema: serde_avro_fast::Schema = r#""string""#.parse().unwrap();
/// let input: &[u8] = &[6u8, b'a', b'b', b'c'];
/// let s: &str = serde_avro_fast::from_datum_reader(input, &schema).unwrap();
/// ```
/// twin:
/// ```no_run
/// let schema: serde_avro_fast::Schema = r#""string""#.parse().unwrap();
/// let input: &[u8] = &[6u8, b'a', b'b', b'c'];
/// let s: String = serde_avro_fast::from_datum_reader(input, &schema).unwrap();
/// ```
pub fn datum_reader_is_owned_only() {}

/// Reader-backed single-object decoding only produces owned values.
/// ```compile_fail
/// let schema: serde_avro_fast::Schema = r#""string""#.parse().unwrap();
/// let input: &[u8] = &[0u8; 16];
/// let s: Result<&str, _> = serde_avro_fast::from_single_object_reader(input, &schema);
/// ```
/// twin:
/// ```no_run
/// let schema: serde_avro_fast::Schema = r#""string""#.parse().unwrap();
/// let input: &[u8] = &[0u8; 16];
/// let s: Result<String, _> = serde_avro_fast::from_single_object_reader(input, &schema);
/// ```
pub fn single_object_reader_is_owned_only() {}

/// The container reader's owned-value entry point rejects borrowed targets.
/// ```compile_fail
/// fn f(file: &[u8]) {
///     let mut r = serde_avro_fast::object_container_file_encoding::Reader::from_slice(file).unwrap();
///     let _: Option<&str> = r.deserialize_next().unwrap();
/// }
/// ```
/// twin:
/// ```no_run
/// fn f(file: &[u8]) {
///     let mut r = serde_avro_fast::object_container_file_encoding::Reader::from_slice(file).unwrap();
///     let _: Option<String> = r.deserialize_next().unwrap();
/// }
/// ```
pub fn container_next_is_owned_only() {}

/// Borrowed values can only be requested from a slice-backed container reader (never from internal buffers).
/// ```compile_fail,E0277
/// fn f(file: std::io::BufReader<std::fs::File>) {
///     let mut r = serde_avro_fast::object_container_file_encoding::Reader::from_reader(file).unwrap();
///     let _: Option<String> = r.deserialize_next_borrowed().unwrap();
/// }
/// ```
/// twin:
/// ```no_run
/// fn f(file: std::io::BufReader<std::fs::File>) {
///     let mut r = serde_avro_fast::object_container_file_encoding::Reader::from_reader(file).unwrap();
///     let _: Option<String> = r.deserialize_next().unwrap();
/// }
/// ```
pub fn borrowed_values_need_a_slice_reader() {}

/// A borrowed value from a slice-backed container reader is tied to the slice, not to the reader.
/// ```compile_fail,E0597
/// let s: Option<&str>;
/// {
///     let file: Vec<u8> = std::fs::read("x").unwrap();
///     let mut r = serde_avro_fast::object_container_file_encoding::Reader::from_slice(&file).unwrap();
///     s = r.deserialize_next_borrowed().unwrap();
/// }
/// println!("{s:?}");
/// ```
/// twin (the reader may go away, the slice stays):
/// ```no_run
/// let s: Option<&str>;
/// let file: Vec<u8> = std::fs::read("x").unwrap();
/// {
///     let mut r = serde_avro_fast::object_container_file_encoding::Reader::from_slice(&file).unwrap();
///     s = r.deserialize_next_borrowed().unwrap();
/// }
/// println!("{s:?}");
/// ```
pub fn borrowed_container_value_tied_to_slice() {}

/// The frozen node type and the node references are not nameable from outside the crate.
/// ```compile_fail,E0603
/// use serde_avro_fast::schema::self_referential::NodeRef;
/// ```
/// twin:
/// ```no_run
/// use serde_avro_fast::schema::SchemaMut;
/// ```
pub fn node_refs_are_private() {}

/// The frozen schema's node storage is not reachable from outside.
/// ```compile_fail,E0616
/// fn f(s: &serde_avro_fast::Schema) -> usize { s.nodes.len() }
/// ```
/// twin:
/// ```no_run
/// fn f(s: &serde_avro_fast::Schema) -> usize { s.json().len() }
/// ```
pub fn frozen_nodes_are_private() {}

/// A frozen schema offers no `&mut` access to its nodes.
/// ```compile_fail,E0599
/// fn f(s: &mut serde_avro_fast::Schema) { s.nodes_mut().clear(); }
/// ```
/// twin (the editable form does):
/// ```no_run
/// fn f(s: &mut serde_avro_fast::schema::SchemaMut) { s.nodes_mut().clear(); }
/// ```
pub fn frozen_schema_is_immutable() {}

/// Positive: a frozen schema is Send + Sync and can be shared by reference across threads; values obtained from a
/// reader-backed container reader are usable after the reader is gone.
/// ```no_run
/// fn assert_send_sync<T: Send + Sync>() {}
/// assert_send_sync::<serde_avro_fast::Schema>();
/// assert_send_sync::<std::sync::Arc<serde_avro_fast::Schema>>();
/// let schema: std::sync::Arc<serde_avro_fast::Schema> = std::sync::Arc::new(r#""int""#.parse().unwrap());
/// std::thread::scope(|sc| {
///     for _ in 0..2 {
///         let schema = &schema;
///         sc.spawn(move || { let _: i32 = serde_avro_fast::from_datum_slice(&[2u8], schema).unwrap(); });
///     }
/// });
/// let v: Vec<String>;
/// {
///     let f = std::io::BufReader::new(std::fs::File::open("x").unwrap());
///     let mut r = serde_avro_fast::object_container_file_encoding::Reader::from_reader(f).unwrap();
///     v = r.deserialize::<String>().collect::<Result<_, _>>().unwrap();
///     let schema_handle = r.schema().clone();
///     drop(schema_handle);
/// }
/// println!("{v:?}");
/// ```
pub fn positive_send_sync_and_owned_values() {}
